"""Rigs: construction of real handlers inside a World and one-call observation records."""
from __future__ import annotations

import copy

from cfdppy.defs import CfdpState
from cfdppy.handler.dest import DestHandler
from cfdppy.handler.source import SourceHandler
from cfdppy.mib import IndicationCfg, LocalEntityCfg, RemoteEntityCfg, RemoteEntityCfgTable
from cfdppy.request import PutRequest
from spacepackets.cfdp import (
    ChecksumType,
    ConditionCode,
    CrcFlag,
    Direction,
    LargeFileFlag,
    PduConfig,
    PduType,
    TransmissionMode,
)
from spacepackets.cfdp.pdu import (
    AckPdu,
    DirectiveType,
    EofPdu,
    FileDataPdu,
    FinishedPdu,
    KeepAlivePdu,
    MetadataParams,
    MetadataPdu,
    NakPdu,
    PromptPdu,
    TransactionStatus,
)
from spacepackets.cfdp.pdu.file_data import FileDataParams
from spacepackets.cfdp.pdu.finished import DeliveryCode, FileStatus, FinishedParams
from spacepackets.cfdp.pdu.prompt import ResponseRequired
from spacepackets.seqcount import SeqCountProvider
from spacepackets.util import UnsignedByteField

from . import symex
from .world import FH, MemPath, User, World

ACK, UNACK = TransmissionMode.ACKNOWLEDGED, TransmissionMode.UNACKNOWLEDGED


class Ids:
    def __init__(self, id_w=2, seq_w=2, src=1, dst=2, seq=5):
        self.id_w, self.seq_w = id_w, seq_w
        self.src = UnsignedByteField(src, id_w)
        self.dst = UnsignedByteField(dst, id_w)
        self.seq = UnsignedByteField(seq, seq_w)
        self.other_entity = UnsignedByteField(9, id_w)
        self.other_seq = UnsignedByteField(seq + 1, seq_w)


def pdu_conf(ids, mode, crc=False, large=False, seq=None, src=None, dst=None):
    return PduConfig(
        source_entity_id=src or ids.src,
        dest_entity_id=dst or ids.dst,
        transaction_seq_num=seq or ids.seq,
        trans_mode=mode,
        file_flag=LargeFileFlag.LARGE if large else LargeFileFlag.NORMAL,
        crc_flag=CrcFlag.WITH_CRC if crc else CrcFlag.NO_CRC,
    )


def remote_cfg(entity_id, *, seg_len=None, max_packet_len=2048, closure=False, crc=False,
               mode=ACK, cktype=ChecksumType.CRC_32, ack_limit=2, check_limit=2, nak_limit=2,
               disposition=False, immediate_nak=True):
    return RemoteEntityCfg(
        entity_id=entity_id, max_file_segment_len=seg_len, max_packet_len=max_packet_len,
        closure_requested=closure, crc_on_transmission=crc, default_transmission_mode=mode,
        crc_type=cktype, positive_ack_timer_interval_seconds=1.0,
        positive_ack_timer_expiration_limit=ack_limit, check_limit=check_limit,
        disposition_on_cancellation=disposition, immediate_nak_mode=immediate_nak,
        nak_timer_interval_seconds=1.0, nak_timer_expiration_limit=nak_limit)


class Obs:
    """what one API call did"""

    __slots__ = ("call", "exc", "ret", "pdus", "ind", "faults", "fs", "state0", "step0", "state1",
                 "step1", "queue0", "progress0", "progress1", "tid0", "tid1")

    def kinds(self):
        return [pdu_kind(p) for p in self.pdus]


def pdu_kind(p):
    if p.pdu_type == PduType.FILE_DATA:
        return "FD"
    return {DirectiveType.METADATA_PDU: "MD", DirectiveType.EOF_PDU: "EOF",
            DirectiveType.FINISHED_PDU: "FIN", DirectiveType.ACK_PDU: "ACK",
            DirectiveType.NAK_PDU: "NAK", DirectiveType.KEEP_ALIVE_PDU: "KA",
            DirectiveType.PROMPT_PDU: "PROMPT"}[p.directive_type]


class _Rig:
    def _begin(self, call):
        o = Obs()
        o.call = call
        o.exc = None
        o.ret = None
        o.state0, o.step0 = self.h.state, self.h.step
        o.queue0 = len(self.h._pdus_to_be_sent)
        o.progress0 = self.h.progress
        o.tid0 = self.h.transaction_id
        self._n_ind = len(self.user.ev)
        self._n_flt = len(self.fh.ev)
        self._n_fs = len(self.fs.calls)
        return o

    def _finish(self, o, drain=True):
        o.pdus = []
        if drain:
            while True:
                p = self.h.get_next_packet()
                if p is None:
                    break
                # an emitted PDU leaves the handler: what is observed is its value at emission, not an
                # object the handler (or the put request) may still change
                o.pdus.append(copy.deepcopy(p.pdu))
        o.ind = self.user.ev[self._n_ind:]
        o.faults = self.fh.ev[self._n_flt:]
        o.fs = self.fs.calls[self._n_fs:]
        o.state1, o.step1 = self.h.state, self.h.step
        o.progress1 = self.h.progress
        o.tid1 = self.h.transaction_id
        self.history.append(o)
        return o

    def drain(self):
        """retrieve everything that is queued (snapshots)"""
        out = []
        while True:
            p = self.h.get_next_packet()
            if p is None:
                break
            out.append(copy.deepcopy(p.pdu))
        return out

    def sm(self, packet=None, drain=True, label=None):
        o = self._begin(label or ("sm", None if packet is None else pdu_kind(packet)))
        try:
            self.h.state_machine(packet)
        except Exception as e:  # noqa: BLE001 - recorded, judged by the property's oracle
            o.exc = e
        return self._finish(o, drain)

    def cancel(self, tid, drain=True):
        o = self._begin(("cancel",))
        try:
            o.ret = self.h.cancel_request(tid)
        except Exception as e:  # noqa: BLE001
            o.exc = e
        return self._finish(o, drain)

    @property
    def idle(self):
        return self.h.state == CfdpState.IDLE


class DestRig(_Rig):
    def __init__(self, w, ids, *, indications=None, fault_table=None, **rcfg):
        self.w, self.ids = w, ids
        self.fs = w.fs("dest")
        self.user = User(self.fs)
        self.fh = FH()
        for cond, code in (fault_table or {}).items():
            self.fh.set_handler(cond, code)
        self.rcfg = remote_cfg(ids.src, **rcfg)
        self.table = RemoteEntityCfgTable([self.rcfg])
        self.icfg = indications or IndicationCfg()
        self.h = DestHandler(LocalEntityCfg(ids.dst, self.icfg, self.fh), self.user, self.table,
                             w.timer)
        self.history = []


class SrcRig(_Rig):
    def __init__(self, w, ids, *, indications=None, fault_table=None, seq_start=None, **rcfg):
        self.w, self.ids = w, ids
        self.fs = w.fs("source")
        self.user = User(self.fs)
        self.fh = FH()
        for cond, code in (fault_table or {}).items():
            self.fh.set_handler(cond, code)
        self.rcfg = remote_cfg(ids.dst, **rcfg)
        self.table = RemoteEntityCfgTable([self.rcfg])
        self.icfg = indications or IndicationCfg()
        self.seq = SeqCountProvider(ids.seq_w * 8)
        self.seq.count = ids.seq.value if seq_start is None else seq_start
        self.h = SourceHandler(LocalEntityCfg(ids.src, self.icfg, self.fh), self.user, self.table,
                               w.timer, self.seq)
        self.history = []

    def put(self, src="/src/file.bin", dst="/dst/file.bin", mode=None, closure=None, dest_id=None,
            msgs=None, fs_requests=None, flow_label=None, overrides=None):
        o = self._begin(("put",))
        try:
            o.ret = self.h.put_request(PutRequest(
                destination_id=dest_id or self.ids.dst,
                source_file=None if src is None else MemPath(src),
                dest_file=None if dst is None else MemPath(dst),
                trans_mode=mode, closure_requested=closure, msgs_to_user=msgs, fs_requests=fs_requests,
                flow_label_tlv=flow_label, fault_handler_overrides=overrides))
        except Exception as e:  # noqa: BLE001
            o.exc = e
        return self._finish(o)


def _put_obj(self, req):
    """submit a PutRequest object the caller keeps (and may submit again)"""
    o = self._begin(("put",))
    try:
        o.ret = self.h.put_request(req)
    except Exception as e:  # noqa: BLE001
        o.exc = e
    return self._finish(o)


SrcRig.put_obj = _put_obj


# --------------------------------------------------------------------------- PDU builders
def metadata(conf, size, cktype=ChecksumType.CRC_32, closure=False, src="/src/file.bin",
             dst="/dst/file.bin", options=None):
    return MetadataPdu(copy.copy(conf), MetadataParams(
        closure_requested=closure, checksum_type=cktype, file_size=size,
        source_file_name=src, dest_file_name=dst), options)


def file_data(conf, offset, payload):
    return FileDataPdu(copy.copy(conf), FileDataParams(file_data=payload, offset=offset))


def eof(conf, size, checksum, cond=ConditionCode.NO_ERROR, fault_location=None):
    return EofPdu(copy.copy(conf), file_checksum=checksum, file_size=size,
                  condition_code=cond, fault_location=fault_location)


def ack(conf, of, cond=ConditionCode.NO_ERROR, status=TransactionStatus.ACTIVE):
    return AckPdu(copy.copy(conf), of, cond, status)


def finished(conf, cond=ConditionCode.NO_ERROR, delivery=DeliveryCode.DATA_COMPLETE,
             status=FileStatus.FILE_RETAINED, fault_location=None):
    return FinishedPdu(copy.copy(conf), FinishedParams(
        condition_code=cond, delivery_code=delivery, file_status=status,
        fault_location=fault_location))


def nak(conf, start, end, reqs):
    return NakPdu(copy.copy(conf), start, end, list(reqs))


def keep_alive(conf, progress):
    return KeepAlivePdu(copy.copy(conf), progress)


def prompt(conf, rr=ResponseRequired.KEEP_ALIVE):
    return PromptPdu(copy.copy(conf), rr)


def set_direction(pdu, d):
    pdu.pdu_header.pdu_conf.direction = d
    return pdu


ADMISSION_DEST = ("NoRemoteEntityCfgFound", "InvalidPduDirection", "InvalidDestinationId",
                  "InvalidPduForDestHandler", "PduIgnoredForDest")
ADMISSION_SRC = ("InvalidPduDirection", "InvalidSourceId", "NoRemoteEntityCfgFound",
                 "InvalidDestinationId", "InvalidTransactionSeqNum", "InvalidPduForSourceHandler",
                 "PduIgnoredForSource")


def exc_name(e):
    return None if e is None else type(e).__name__


def exc_sig(e, step=None):
    s = f"{type(e).__name__}@{symex.exc_site(e)}"
    if step is not None:
        s += f"@{step.name}"
    return s
