"""H-DST: one real DestHandler fed an arbitrary sequence of events (open environment).

Every event is a solver-forked choice from a per-property alphabet; numeric fields of the
PDUs (offsets, lengths, sizes, clock advance) stay symbolic.
"""
from __future__ import annotations

from cfdppy.handler.dest import TransactionStep as DStep
from spacepackets.cfdp import ChecksumType, ConditionCode, Direction, TransactionId
from spacepackets.cfdp.pdu import DirectiveType

from . import rigs, symex
from .rigs import ACK, UNACK, DestRig, Ids
from .symex import sand, snot, sor

OMAX = 2**20  # bound on offsets / sizes (keeps everything in the 32-bit PDU fields)
LMAX = 4000  # bound on one File Data payload

DATA_STEPS = (DStep.RECEIVING_FILE_DATA, DStep.RECV_FILE_DATA_WITH_CHECK_LIMIT_HANDLING,
              DStep.WAITING_FOR_MISSING_DATA)

DEST_DOCUMENTED = ("NoRemoteEntityCfgFound", "InvalidPduDirection", "InvalidDestinationId",
                   "InvalidPduForDestHandler", "PduIgnoredForDest", "UnretrievedPdusToBeSent")


class DstScenario:
    def __init__(self, ctx, w, *, mode, cktype=ChecksumType.CRC_32, closure=False, ids=None,
                 S=None, seg=None, crc=False, dst_name="/dst/file.bin", src_name="/src/file.bin",
                 rig_kwargs=None, rig=None, vp="", large=False):
        self.ctx, self.w = ctx, w
        self.ids = ids or Ids(2, 2)
        self.mode, self.cktype, self.closure, self.crc = mode, cktype, closure, crc
        self.vp = vp  # prefix of the harness variable names drawn by step()
        self.S = ctx.int(vp + "S", 0, OMAX) if S is None else S
        self.seg = seg
        self.M = None
        self.dst_name, self.src_name = dst_name, src_name
        self.rig = rig or DestRig(w, self.ids, mode=mode, closure=closure, cktype=cktype,
                                  **(rig_kwargs or {}))
        self.conf = rigs.pdu_conf(self.ids, mode, crc=crc, large=large)
        self.tid = TransactionId(self.ids.src, self.ids.seq)
        self.n = 0
        self.events = []

    # -- single events; each returns an Obs with .ev set
    pdu_dt = False  # if set, every PDU delivery may be preceded by a symbolic clock advance

    def _deliver(self, pdu, ev):
        if self.pdu_dt:
            dt = self.ctx.int(f"{self.vp}pdt{len(self.events)}", 0, 2)
            self.w.tick(dt)
            ev = ev + ("dt", dt)
        o = self.rig.sm(self.w.wire(pdu))
        return self._done(o, ev)

    def _done(self, o, ev):
        self.events.append(ev)
        self.ctx.note(ev, rigs.exc_name(o.exc), [describe(p) for p in o.pdus], o.step1.name)
        o.call = ev
        return o

    def md(self, size=None, seq=None, closure=None, cktype=None):
        conf = self.conf if seq is None else rigs.pdu_conf(self.ids, self.mode, crc=self.crc, seq=seq)
        p = rigs.metadata(conf, self.S if size is None else size,
                          self.cktype if cktype is None else cktype,
                          self.closure if closure is None else closure, self.src_name, self.dst_name,
                          options=list(self.md_options) if getattr(self, "md_options", None) else None)
        return self._deliver(p, ("MD",) if seq is None else ("MD", "other-seq"))

    def fd(self, off, n, corrupt=False, seq=None, src_start=None, jname=None):
        conf = self.conf if seq is None else rigs.pdu_conf(self.ids, self.mode, crc=self.crc, seq=seq)
        payload = self.w.payload(off if src_start is None else src_start, n, corrupt=corrupt,
                                 jname=jname)
        p = rigs.file_data(conf, off, payload)
        return self._deliver(p, ("FD", off, n, corrupt))

    def grid_fd(self, k, corrupt=False):
        """k-th segment of the file segmented on a grid of self.seg"""
        off = k * self.seg
        self.ctx.assume(off < self.S)
        n = symex.smin(self.seg, self.S - off)
        return self.fd(off, n, corrupt=corrupt)

    def eof(self, size=None, cond=ConditionCode.NO_ERROR, checksum=None, seq=None):
        conf = self.conf if seq is None else rigs.pdu_conf(self.ids, self.mode, crc=self.crc, seq=seq)
        size = self.S if size is None else size
        ck = self.w.checksum(self.cktype, size) if checksum is None else checksum
        p = rigs.eof(conf, size, ck, cond)
        return self._deliver(p, ("EOF", int(cond), size))

    def ack_fin(self, cond=ConditionCode.NO_ERROR):
        return self._deliver(rigs.ack(self.conf, DirectiveType.FINISHED_PDU, cond), ("ACKFIN",))

    def prompt(self):
        return self._deliver(rigs.prompt(self.conf), ("PROMPT",))

    def foreign(self, kind):
        """a PDU that belongs to the sender side"""
        c = self.conf
        p = {"FIN": lambda: rigs.finished(c), "NAK": lambda: rigs.nak(c, 0, 0, [(0, 0)]),
             "KA": lambda: rigs.keep_alive(c, 0),
             "ACKEOF": lambda: rigs.ack(c, DirectiveType.EOF_PDU)}[kind]()
        rigs.set_direction(p, Direction.TOWARDS_RECEIVER)
        return self._deliver(p, ("FOREIGN", kind))

    def wrong_direction(self):
        p = rigs.metadata(self.conf, self.S, self.cktype, self.closure)
        rigs.set_direction(p, Direction.TOWARDS_SENDER)
        return self._deliver(p, ("WRONGDIR",))

    def wrong_dest(self):
        c = rigs.pdu_conf(self.ids, self.mode, dst=self.ids.other_entity)
        return self._deliver(rigs.metadata(c, self.S, self.cktype, self.closure), ("WRONGDEST",))

    def unknown_source(self):
        c = rigs.pdu_conf(self.ids, self.mode, src=self.ids.other_entity)
        return self._deliver(rigs.metadata(c, self.S, self.cktype, self.closure), ("UNKNOWNSRC",))

    def tick(self, name):
        dt = self.ctx.int(name, 0, 3)
        self.w.tick(dt)
        o = self.rig.sm(None)
        return self._done(o, ("TICK", dt))

    def tick0(self):
        """state-machine call without packet and without the clock advancing"""
        o = self.rig.sm(None)
        return self._done(o, ("TICK", 0))

    def cancel(self, tid=None):
        o = self.rig.cancel(self.tid if tid is None else tid)
        return self._done(o, ("CANCEL", "own" if tid is None else "other"))

    def replay_on(self, ev):
        """re-issue a recorded event (same, possibly symbolic, values) on this scenario"""
        k = ev[0]
        if k == "MD":
            return self.md()
        if k == "FD":
            return self.fd(ev[1], ev[2], corrupt=ev[3])
        if k == "EOF":
            return self.eof(size=ev[2], cond=ConditionCode(ev[1]))
        if k == "ACKFIN":
            return self.ack_fin()
        if k == "TICK":
            # the clock is global and was advanced when the event was first issued
            return self._done(self.rig.sm(None), ("TICK", ev[1]))
        if k == "CANCEL":
            return self.cancel()
        raise symex.HarnessError(f"cannot replay {ev}")

    # -- canonical prefixes: drive the receiver into the late steps with symbolic sizes
    PREFIXES = {
        "none": [],
        "delivered": ["MD", "FD0", "EOF", "TICK0"],          # acked: WAITING_FOR_FINISHED_ACK
        "eof_missing": ["MD", "EOF", "TICK0"],                # acked: WAITING_FOR_MISSING_DATA; unacked: check limit
        "fd_first": ["FDX0"],                                 # acked: WAITING_FOR_METADATA
        "eof_first": ["EOF", "TICK0"],                        # acked: WAITING_FOR_METADATA with deferred procedure
        "half": ["MD", "FDH"],                                # first half of the file received
    }

    def run_prefix(self, name):
        out = []
        for ev in self.PREFIXES[name]:
            if ev == "MD":
                o = self.md()
            elif ev == "FD0":
                self.ctx.assume(self.S <= LMAX)
                o = self.fd(0, self.S)
            elif ev == "FDH":
                h = self.ctx.int(self.vp + "half", 0, LMAX)
                self.ctx.assume(h <= self.S)
                o = self.fd(0, h)
            elif ev == "FDX0":
                n = self.ctx.int(self.vp + "pn", 0, LMAX)
                o = self.fd(self.ctx.int(self.vp + "po", 0, OMAX), n)
            elif ev == "EOF":
                o = self.eof()
            elif ev == "TICK0":
                o = self.tick0()
            else:
                raise symex.HarnessError(ev)
            out.append(o)
        return out

    # -- generic event chooser
    def step(self, alphabet):
        i = f"{self.vp}{self.n}"
        self.n += 1
        ctx = self.ctx
        kind = ctx.pick(f"e{i}", list(alphabet))
        if kind == "MD":
            return self.md()
        if kind == "FD":
            off = ctx.int(f"o{i}", 0, OMAX)
            n = ctx.int(f"n{i}", 0, LMAX)
            return self.fd(off, n)
        if kind == "FDX":  # File Data whose payload may be corrupted (symbolic flag)
            off = ctx.int(f"o{i}", 0, OMAX)
            n = ctx.int(f"n{i}", 0, LMAX)
            return self.fd(off, n, corrupt=ctx.bool(f"bad{i}"), jname=f"j{i}")
        if kind in ("FDG", "FDGBAD"):
            k = ctx.choice(f"k{i}", self.M)
            return self.grid_fd(k, corrupt=(ctx.bool(f"bad{i}") if kind == "FDGBAD" else False))
        if kind == "EOF":
            return self.eof()
        if kind == "EOFC":
            size = ctx.int(f"cs{i}", 0, OMAX)
            ctx.assume(size <= self.S)
            cond = ctx.pick(f"cc{i}", [ConditionCode.CANCEL_REQUEST_RECEIVED,
                                       ConditionCode.POSITIVE_ACK_LIMIT_REACHED])
            return self.eof(size=size, cond=cond)
        if kind == "ACKFIN":
            return self.ack_fin()
        if kind == "PROMPT":
            return self.prompt()
        if kind == "TICK":
            return self.tick(f"dt{i}")
        if kind == "CANCEL":
            return self.cancel()
        if kind == "CANCEL_OTHER":
            return self.cancel(TransactionId(self.ids.src, self.ids.other_seq))
        if kind.startswith("FOREIGN_"):
            return self.foreign(kind.split("_", 1)[1])
        if kind == "WRONGDIR":
            return self.wrong_direction()
        if kind == "WRONGDEST":
            return self.wrong_dest()
        if kind == "UNKNOWNSRC":
            return self.unknown_source()
        if kind == "MD_OTHER":
            return self.md(seq=self.ids.other_seq)
        if kind == "FD_OTHER":
            off = ctx.int(f"o{i}", 0, OMAX)
            n = ctx.int(f"n{i}", 0, LMAX)
            return self.fd(off, n, seq=self.ids.other_seq)
        if kind == "EOF_OTHER":
            return self.eof(seq=self.ids.other_seq)
        raise symex.HarnessError(f"unknown event {kind}")


def describe(p):
    k = rigs.pdu_kind(p)
    if k == "NAK":
        return ["NAK", p.start_of_scope, p.end_of_scope, [list(r) for r in p.segment_requests]]
    if k == "FIN":
        return ["FIN", int(p.condition_code), int(p.delivery_code), int(p.file_status)]
    if k == "ACK":
        return ["ACK", int(p.directive_code_of_acked_pdu), int(p.condition_code_of_acked_pdu)]
    return k


def is_internal(exc):
    """exception that is not one of the library's protocol exceptions for the destination"""
    return exc is not None and type(exc).__name__ not in DEST_DOCUMENTED


def end_if_other_property(ctx, o, owner="C10"):
    """a different property's subject (internal exception, spurious 'unretrieved') ends the path"""
    if o.exc is None:
        return
    name = type(o.exc).__name__
    if name not in DEST_DOCUMENTED or (name == "UnretrievedPdusToBeSent" and o.queue0 == 0):
        ctx.end("other", f"{owner}:{rigs.exc_sig(o.exc)}")
