"""The symbolic world: stubs, shims and recorders (DESIGN.md section 4), dual mode.

mode "sym":  ints are SymInt, payloads are SymBytes, checksums abstract tokens, Countdown on
             a symbolic clock, `len`/`dict` shimmed in the handler modules.
mode "conc": plain python ints, real bytes, real crcmod checksums, the real Countdown on a
             patched time source, builtin len/dict, PDUs go through pack()/unpack().
"""
from __future__ import annotations

import builtins
import copy
import enum
import pathlib
import random

import z3

import cfdppy.handler.dest as destmod
import cfdppy.handler.source as srcmod
import spacepackets.cfdp.pdu.file_data as fdmod
import spacepackets.countdown as cdmod
from cfdppy.filestore import VirtualFilestore
from cfdppy.mib import CheckTimerProvider, DefaultFaultHandlerBase
from cfdppy.user import CfdpUserBase
from crcmod.predefined import PredefinedCrc

RealPredefinedCrc = PredefinedCrc
from spacepackets.cfdp import ChecksumType
from spacepackets.cfdp.pdu.helper import PduFactory
from spacepackets.cfdp.tlv import FilestoreResponseStatusCode as FRC
from spacepackets.countdown import Countdown as RealCountdown

from . import symex
from .symex import Ctx, SymBool, SymInt, _z, _zb

_real_time_ms = cdmod.time_ms

# content sources: C(source id, index) -> byte value (0..255); source id 0 is the genuine file
C = z3.Function("C", z3.IntSort(), z3.IntSort(), z3.BitVecSort(8))
ZERO8 = z3.BitVecVal(0, 8)
# Hs(checksum type, n) = checksum token of the first n bytes of the genuine file
Hs = z3.Function("Hs", z3.IntSort(), z3.IntSort(), z3.IntSort())


# --------------------------------------------------------------------------- payloads
class SymBytes:
    """`n` bytes taken from content source `src` starting at index `start`"""

    def __init__(self, src, start, n):
        self.src, self.start, self.n = src, start, n

    def __deepcopy__(self, memo):
        return self

    def note_eval(self):
        return ("bytes", self.src, self.start, self.n)

    def __repr__(self):
        return f"SymBytes(src={self.src}, start={self.start}, n={self.n})"

    def __eq__(self, o):
        if isinstance(o, SymBytes):
            return symex.sand(self.src == o.src, self.start == o.start, self.n == o.n)
        return False

    __hash__ = None


def sym_len(x):
    if isinstance(x, SymBytes):
        return x.n
    return builtins.len(x)


class SymChecksum:
    """abstract 4-byte checksum value"""

    def __init__(self, e):
        self.e = e

    def __len__(self):
        return 4

    def __deepcopy__(self, memo):
        return self

    def __eq__(self, o):
        if isinstance(o, SymChecksum):
            return SymBool(self.e == o.e)
        if isinstance(o, (bytes, bytearray)) and len(o) == 4:
            return SymBool(self.e == int.from_bytes(o, "big"))
        return False

    def __ne__(self, o):
        r = self.__eq__(o)
        return symex.snot(r)

    __hash__ = None

    def note_eval(self):
        return ("cksum", SymInt(self.e))

    def __repr__(self):
        return f"SymChecksum({self.e})"


# --------------------------------------------------------------------------- dict shim
class SymDict:
    """Replacement bound to the name `dict` in cfdppy.handler.dest: insertion-ordered
    association list whose key comparison is `==` (solver decided for proxies)."""

    def __init__(self, arg=()):
        self._kv = []
        self.update(arg)

    def _find(self, key):
        for i, (k, _) in enumerate(self._kv):
            if k is key or bool(k == key):
                return i
        return -1

    def update(self, other=()):
        items = other.items() if hasattr(other, "items") else other
        for k, v in items:
            i = self._find(k)
            if i >= 0:
                self._kv[i] = (self._kv[i][0], v)
            else:
                self._kv.append((k, v))

    def get(self, key, default=None):
        i = self._find(key)
        return self._kv[i][1] if i >= 0 else default

    def pop(self, key, *d):
        i = self._find(key)
        if i < 0:
            if d:
                return d[0]
            raise KeyError(key)
        return self._kv.pop(i)[1]

    def __getitem__(self, key):
        i = self._find(key)
        if i < 0:
            raise KeyError(key)
        return self._kv[i][1]

    def __setitem__(self, key, v):
        self.update([(key, v)])

    def __delitem__(self, key):
        self.pop(key)

    def __contains__(self, key):
        return self._find(key) >= 0

    def items(self):
        return list(self._kv)

    def keys(self):
        return [k for k, _ in self._kv]

    def values(self):
        return [v for _, v in self._kv]

    def __iter__(self):
        return iter(self.keys())

    def __len__(self):
        return builtins.len(self._kv)

    def __bool__(self):
        return builtins.len(self._kv) > 0

    def clear(self):
        self._kv.clear()

    def copy(self):
        return SymDict(self._kv)

    def setdefault(self, k, d=None):
        i = self._find(k)
        if i >= 0:
            return self._kv[i][1]
        self._kv.append((k, d))
        return d

    def __eq__(self, o):
        if isinstance(o, (SymDict, dict)):
            return self.items() == list(o.items())
        return False

    __hash__ = None

    def __repr__(self):
        return "SymDict(%r)" % (self._kv,)


# --------------------------------------------------------------------------- time
class Clock:
    now = 0  # in units of the (single) timer interval

    @classmethod
    def reset(cls):
        cls.now = 0

    @classmethod
    def advance(cls, dt):
        cls.now = cls.now + dt


class SymCountdown:
    """Countdown with the interface of spacepackets.countdown.Countdown on the symbolic clock.
    Interval = 1 clock unit.  The clock only advances between API calls."""

    created = 0

    def __init__(self, *a, interval=1, **k):
        self.start = Clock.now
        self.interval = interval
        SymCountdown.created += 1

    @classmethod
    def from_seconds(cls, s):
        return cls()

    @classmethod
    def from_millis(cls, ms):
        return cls()

    def timed_out(self):
        return bool(Clock.now - self.start >= self.interval)

    def busy(self):
        return not self.timed_out()

    def reset(self, *_):
        self.start = Clock.now

    def start_(self):
        self.start = Clock.now

    def time_out(self):
        self.start = Clock.now - self.interval

    def __deepcopy__(self, memo):
        c = SymCountdown.__new__(SymCountdown)
        c.start = self.start
        c.interval = self.interval
        return c


class TimerProv(CheckTimerProvider):
    """check timers; `intervals` may give the sending and the receiving role different intervals (in clock units)"""

    def __init__(self, mode):
        self.mode = mode
        self.intervals = {}
        self.asked = []

    def provide_check_timer(self, local_entity_id, remote_entity_id, entity_type):
        self.asked.append(entity_type)
        iv = self.intervals.get(entity_type, 1)
        if self.mode == "sym":
            return SymCountdown(interval=iv)
        return RealCountdown.from_seconds(float(iv))


_shim_state = {"mode": None}


class SymAwareCrc(RealPredefinedCrc):
    """crcmod's PredefinedCrc that can also be fed symbolic payloads: what it was fed is recorded; the
    digest is the abstract checksum token of the genuine prefix if (and, as far as the solver can tell,
    only if) exactly the bytes [0, n) of the genuine content were fed in order"""

    CT = {"crc32": int(ChecksumType.CRC_32), "crc-32": int(ChecksumType.CRC_32),
          "crc32c": int(ChecksumType.CRC_32C), "crc-32c": int(ChecksumType.CRC_32C)}

    def __init__(self, crc_name):
        super().__init__(crc_name)
        self._ct = self.CT.get(str(crc_name).lower())
        self._fed = []  # symbolic chunks in order; a concrete chunk in between makes the digest opaque
        self._opaque = False

    def update(self, data):
        if isinstance(data, SymBytes):
            self._fed.append(data)
            return
        if len(data) > 0:
            self._opaque = True  # concrete bytes: not (only) the genuine symbolic content
        super().update(data)

    def copy(self):
        c = SymAwareCrc.__new__(SymAwareCrc)
        c.__dict__.update(RealPredefinedCrc.copy(self).__dict__)
        c._ct, c._fed, c._opaque = self._ct, list(self._fed), self._opaque
        return c

    def new(self, arg=None):
        c = SymAwareCrc.__new__(SymAwareCrc)
        c.__dict__.update(RealPredefinedCrc.new(self).__dict__)
        c._ct, c._fed, c._opaque = self._ct, [], False
        if arg is not None:
            c.update(arg)
        return c

    def digest(self):
        if not self._fed:
            return super().digest()
        ctx = Ctx.cur
        h = z3.Int(ctx.fresh("Hc"))
        pos = z3.IntVal(0)
        conds = [z3.BoolVal(not self._opaque and self._ct is not None)]
        for c in self._fed:
            conds.append(z3.And(_z(c.src) == 0, _z(c.start) == pos))
            pos = pos + _z(c.n)
        pos = z3.simplify(pos)
        ctx.assume(z3.Implies(z3.And(*conds), h == Hs(self._ct if self._ct is not None else -7, pos)))
        return SymChecksum(h)


_crc_rebound = []


def _rebind_crc(cls_from, cls_to):
    """every cfdppy module that imported crcmod's class by name gets the other class"""
    import sys as _sys

    import crcmod.predefined as _cp
    if _cp.PredefinedCrc is cls_from:
        _cp.PredefinedCrc = cls_to
    for name, mod in list(_sys.modules.items()):
        if mod is None or not name.startswith("cfdppy"):
            continue
        for attr, val in list(vars(mod).items()):
            if val is cls_from:
                setattr(mod, attr, cls_to)


def apply_shims(mode):
    """bind (sym) or unbind (conc) the module-namespace shims"""
    if _shim_state["mode"] == mode:
        return
    if mode == "sym":
        _rebind_crc(RealPredefinedCrc, SymAwareCrc)
        for m in (destmod, srcmod, fdmod):
            m.len = sym_len
        destmod.dict = SymDict
        destmod.Countdown = SymCountdown
        srcmod.Countdown = SymCountdown
        cdmod.time_ms = _real_time_ms
    else:
        _rebind_crc(SymAwareCrc, RealPredefinedCrc)
        for m in (destmod, srcmod, fdmod):
            m.__dict__.pop("len", None)
        destmod.__dict__.pop("dict", None)
        destmod.Countdown = RealCountdown
        srcmod.Countdown = RealCountdown
        cdmod.time_ms = lambda: int(Clock.now) * 1000
    _shim_state["mode"] = mode


def remove_shims():
    _rebind_crc(SymAwareCrc, RealPredefinedCrc)
    for m in (destmod, srcmod, fdmod):
        m.__dict__.pop("len", None)
    destmod.__dict__.pop("dict", None)
    destmod.Countdown = RealCountdown
    srcmod.Countdown = RealCountdown
    cdmod.time_ms = _real_time_ms
    _shim_state["mode"] = None


SHIMS_DOC = [
    "len bound in cfdppy.handler.dest/source and spacepackets.cfdp.pdu.file_data (symbolic payload length)",
    "dict bound in cfdppy.handler.dest (association list compared by ==)",
    "Countdown bound in cfdppy.handler.dest/source (symbolic clock, interval 1 unit, clock advances only between API calls)",
    "crcmod PredefinedCrc, wherever a cfdppy module imported it by name: subclass that records symbolic payloads and answers with the abstract checksum token of the genuine prefix iff exactly that prefix was fed",
]


# --------------------------------------------------------------------------- class-level state
_saved_defaults = []


def _scan_class_defaults():
    import dataclasses
    import enum
    import inspect

    immut = (int, float, str, bytes, bool, type(None), tuple, frozenset, enum.Enum)
    for mod in (destmod, srcmod):
        for _, cls in inspect.getmembers(mod, inspect.isclass):
            if cls.__module__ != mod.__name__:
                continue
            if dataclasses.is_dataclass(cls):
                for f in dataclasses.fields(cls):
                    d = f.default
                    if d is dataclasses.MISSING or isinstance(d, immut):
                        continue
                    if hasattr(d, "__dict__"):
                        _saved_defaults.append((f"{cls.__name__}.{f.name}", d, copy.deepcopy(d.__dict__)))


_scan_class_defaults()


def restore_class_defaults():
    for _, obj, saved in _saved_defaults:
        obj.__dict__.clear()
        obj.__dict__.update(copy.deepcopy(saved))


def class_level_mutable_defaults():
    return [n for n, _, _ in _saved_defaults]


symex.add_reset_hook(restore_class_defaults)
symex.add_reset_hook(Clock.reset)


# --------------------------------------------------------------------------- filestore
def _pkey(p):
    return pathlib.PurePosixPath(str(p)).as_posix()


SMALL_PTS = 17  # injectivity of the checksum abstraction is also instantiated at offsets 0..SMALL_PTS-1
ALT_SRC = 99  # source id of the unrelated second file content
ALT_CK = 100  # offset of its checksum tokens in the first argument of Hs


class BigZeros:
    """concrete content of a huge (sparse) file: zeros, materialised slice by slice"""

    def __init__(self, n):
        self.n = n

    def __len__(self):
        return self.n

    def __getitem__(self, i):
        if isinstance(i, slice):
            a, b, _ = i.indices(self.n)
            if b - a > 1 << 20:
                raise symex.HarnessError("slice of a sparse file too large to materialise")
            return bytes(max(0, b - a))
        return 0


class MemFile:
    def __init__(self, base_size=None):
        self.log = []  # (offset, payload) in arrival order
        self.base = base_size is not None  # pristine source file of given size


class HostAccess(Exception):
    pass


class MemFs(VirtualFilestore):
    """In-memory VirtualFilestore for both modes.  Records every call."""

    def __init__(self, world, name):
        self.w = world
        self.name = name
        self.files = {}
        self.dirs = set()
        self.calls = []  # (op, path, extra...)
        self.cks_calls = []
        self.reject = None  # callable(kind, path) -> exception class or None
        self.conc = {}  # conc mode: path -> bytearray

    # -- setup helpers
    def add_dir(self, p):
        self.dirs.add(_pkey(p))

    def __len__(self):
        """container semantics (number of files): an empty user filestore is falsy - still the user's filestore"""
        return len(self.files)

    def add_source_file(self, p, size, alt=False):
        """pristine file holding the first `size` bytes of the genuine content; alt=True: of an
        unrelated second content (source id ALT_SRC, checksum tokens Hs(type + ALT_CK, n))"""
        f = MemFile(base_size=size)
        f.alt = alt
        if self.w.sym:
            f.log.append((0, SymBytes(ALT_SRC if alt else 0, 0, size)))
        elif size > 4096 and not alt:
            self.conc[_pkey(p)] = BigZeros(size)  # sparse: only used where content does not matter
        else:
            self.conc[_pkey(p)] = bytearray(self.w.alt_bytes(size) if alt else self.w.src_bytes(0, size))
        f.size = size
        self.files[_pkey(p)] = f

    def grow_source_file(self, p, extra):
        """the pristine file is appended to (more genuine content) while a transfer is running"""
        f = self.files[_pkey(p)]
        if not f.base or getattr(f, "alt", False):
            raise symex.HarnessError("only a pristine genuine source file can grow")
        if self.w.sym:
            new = SymInt(z3.simplify(_z(f.size) + _z(extra)))
            f.log[0] = (0, SymBytes(0, 0, new))
            f.size = new
        else:
            f.size = f.size + extra
            self.conc[_pkey(p)] = bytearray(self.w.src_bytes(0, f.size))

    def add_plain_file(self, p, nbytes=0):
        """pre-existing (foreign content) file"""
        f = MemFile()
        if self.w.sym:
            if not (isinstance(nbytes, int) and nbytes == 0):
                f.log.append((0, SymBytes(-1, 0, nbytes)))
        else:
            given = bytes.fromhex(self.w.ctx.model_in.get("_old", ""))
            self.conc[_pkey(p)] = bytearray((given + b"\xee" * nbytes)[:nbytes])
        self.files[_pkey(p)] = f

    # -- symbolic content queries
    def file_end(self, p, upto=None):
        f = self.files[_pkey(p)]
        if not self.w.sym:
            return len(self.conc[_pkey(p)])
        end = z3.IntVal(0)
        for o, d in f.log[:upto]:
            n = _z(sym_len(d))
            e = _z(o) + n
            end = z3.If(z3.And(n > 0, e > end), e, end)
        return SymInt(z3.simplify(end))

    def byte_term(self, p, x, upto=None):
        """z3 Int term: value of byte x of file p (0 for holes); only meaningful if x < end"""
        f = self.files[_pkey(p)]
        val = ZERO8
        for o, d in f.log[:upto]:
            oo, n = _z(o), _z(sym_len(d))
            inside = z3.And(oo <= x, x < oo + n)
            val = z3.If(inside, C(_z(d.src), _z(d.start) + x - oo), val)
        return val

    def covered_term(self, p, x, upto=None):
        f = self.files[_pkey(p)]
        cs = [z3.And(_z(o) <= x, x < _z(o) + _z(sym_len(d))) for o, d in f.log[:upto]]
        return z3.Or(cs) if cs else z3.BoolVal(False)

    def conc_bytes(self, p):
        return bytes(self.conc[_pkey(p)])

    # -- VirtualFilestore
    def _rec(self, *c):
        self.calls.append(c)

    def _maybe_reject(self, kind, p):
        if self.reject is not None:
            exc = self.reject(kind, p)
            if exc is not None:
                self._rec("rejected", _pkey(p), kind)
                raise exc(str(p))

    def read_data(self, file, offset, read_len=None):
        k = _pkey(file)
        self._rec("read", k, offset, read_len)
        if k not in self.files:
            raise FileNotFoundError(file)
        if offset is None:
            offset = 0
        return self._read(k, offset, read_len)

    def _read(self, k, offset, read_len):
        f = self.files[k]
        if not self.w.sym:
            b = self.conc[k]
            if read_len is None:
                return bytes(b[offset:])
            return bytes(b[offset:offset + read_len])
        if not f.base:
            raise symex.Unsupported("symbolic read of a non-source file")
        size = _z(f.size)
        o = _z(offset)
        if read_len is None:
            n = z3.If(o >= size, 0, size - o)
        else:
            rl = _z(read_len)
            n = z3.If(o >= size, 0, z3.If(o + rl <= size, rl, size - o))
            n = z3.If(n < 0, 0, n)
        return SymBytes(0, offset, SymInt(z3.simplify(n)))

    def read_from_opened_file(self, bytes_io, offset, read_len):
        if isinstance(bytes_io, MemHandle):
            self._rec("read_opened", bytes_io.key, offset, read_len)
            return bytes_io.fs._read(bytes_io.key, offset, read_len)
        raise HostAccess("read_from_opened_file on a foreign handle")

    def is_directory(self, path):
        self._rec("is_directory", _pkey(path))
        return _pkey(path) in self.dirs

    def filename_from_full_path(self, path):
        return pathlib.PurePosixPath(str(path)).name

    def file_exists(self, path):
        self._rec("file_exists", _pkey(path))
        return _pkey(path) in self.files or _pkey(path) in self.dirs

    def truncate_file(self, file):
        k = _pkey(file)
        self._rec("truncate", k)
        self._maybe_reject("truncate", file)
        if k not in self.files:
            raise FileNotFoundError(file)
        self.files[k] = MemFile()
        if not self.w.sym:
            self.conc[k] = bytearray()

    def file_size(self, file):
        k = _pkey(file)
        self._rec("file_size", k)
        if k not in self.files:
            raise FileNotFoundError(file)
        f = self.files[k]
        if f.base:
            return f.size
        return self.file_end(k)

    def write_data(self, file, data, offset):
        k = _pkey(file)
        self._rec("write", k, offset, data if self.w.sym else len(data))
        self._maybe_reject("write", file)
        if k not in self.files:
            raise FileNotFoundError(file)
        if offset is None:
            offset = 0
        f = self.files[k]
        f.base = False
        if self.w.sym:
            f.log.append((offset, data))
        else:
            b = self.conc[k]
            if len(data) > 0:
                if len(b) < offset:
                    b.extend(bytes(offset - len(b)))
                b[offset:offset + len(data)] = data
            f.log.append((offset, len(data)))

    def create_file(self, file):
        k = _pkey(file)
        self._rec("create", k)
        self._maybe_reject("create", file)
        if k in self.files or k in self.dirs:
            return FRC.CREATE_NOT_ALLOWED
        self.files[k] = MemFile()
        if not self.w.sym:
            self.conc[k] = bytearray()
        return FRC.CREATE_SUCCESS

    def delete_file(self, file):
        k = _pkey(file)
        self._rec("delete", k)
        if k in self.dirs:
            return FRC.DELETE_NOT_ALLOWED
        if k not in self.files:
            return FRC.DELETE_FILE_DOES_NOT_EXIST
        del self.files[k]
        self.conc.pop(k, None)
        return FRC.DELETE_SUCCESS

    def rename_file(self, a, b):
        self._rec("rename", _pkey(a), _pkey(b))
        return FRC.RENAME_NOT_PERFORMED

    def replace_file(self, a, b):
        self._rec("replace", _pkey(a), _pkey(b))
        return FRC.REPLACE_NOT_ALLOWED

    def create_directory(self, d):
        self._rec("mkdir", _pkey(d))
        return FRC.CREATE_DIR_CAN_NOT_BE_CREATED

    def remove_directory(self, d, recursive=False):
        self._rec("rmdir", _pkey(d))
        return FRC.REMOVE_DIR_NOT_ALLOWED

    def list_directory(self, d, t, recursive=False):
        self._rec("lsdir", _pkey(d))
        return FRC.NOT_PERFORMED

    def calculate_checksum(self, checksum_type, file_path, size_to_verify, segment_len=4096):
        k = _pkey(file_path)
        self._rec("checksum", k, size_to_verify)
        self._maybe_reject("checksum", file_path)
        if checksum_type == ChecksumType.NULL_CHECKSUM:
            return bytes(4)
        if k not in self.files:
            raise FileNotFoundError(file_path)
        if not self.w.sym:
            data = bytes(self.conc[k][:size_to_verify])
            if checksum_type == ChecksumType.MODULAR:
                tot = 0
                for i in range(0, len(data), 4):
                    tot += int.from_bytes(data[i:i + 4].ljust(4, b"\0"), "big")
                return (tot % 2**32).to_bytes(4, "big")
            if checksum_type == ChecksumType.CRC_32:
                c = PredefinedCrc("crc32")
            elif checksum_type == ChecksumType.CRC_32C:
                c = PredefinedCrc("crc32c")
            else:
                from cfdppy.exceptions import ChecksumNotImplemented

                raise ChecksumNotImplemented(checksum_type)
            c.update(data)
            return c.digest()
        ctx = Ctx.cur
        f = self.files[k]
        n = _z(size_to_verify)
        ct = int(checksum_type)
        self.w.hs_args.append(n)
        if f.base:
            # pristine source file: Hs(n) clamps at the file size, as reading stops at EOF
            size = _z(f.size)
            nn = z3.simplify(z3.If(n > size, size, n))
            if getattr(f, "alt", False):
                # unrelated content, but the checksum of nothing is the same for every content
                ctx.assume(z3.Implies(nn == 0, Hs(ct + ALT_CK, nn) == Hs(ct, nn)))
                return SymChecksum(Hs(ct + ALT_CK, nn))
            self.w.hs_claims.append(nn)  # a peer will compare its own checksum with this one
            return SymChecksum(Hs(ct, nn))
        # the same content gives the same checksum: a repeated calculation over an unchanged file (same write
        # log, same length argument) returns the token of the first one
        memo_key = (k, ct, len(f.log), id(f), z3.simplify(n).sexpr())
        memo = self.__dict__.setdefault("_cks_memo", {})
        if memo_key in memo:
            return SymChecksum(memo[memo_key])
        h = z3.Int(ctx.fresh("H"))
        memo[memo_key] = h
        i = z3.Int(ctx.fresh("i"))
        end = _z(self.file_end(k))
        upto = len(f.log)
        differs = z3.And(0 <= i, i < n, z3.Or(i >= end, self.byte_term(k, i) != C(0, i)))
        cons = [z3.Or(differs, h == Hs(ct, n))]
        if self.w.injective and self.w.witness is not None:
            # "no genuine collision", instantiated at the witness and at every point where a
            # difference can become visible: offset 0, every write end, every corruption index
            pts = [_z(self.w.witness), z3.IntVal(0)] + [_z(o) + _z(sym_len(d)) for o, d in f.log]
            pts += [_z(j) for j in self.w.corrupt_points]
            # ... and at the first few offsets, so that the small models the concrete twin replays agree
            # with the abstraction byte for byte (files of up to SMALL_PTS bytes)
            pts += [z3.IntVal(q) for q in range(1, SMALL_PTS)]
            oks = [z3.Implies(z3.And(0 <= p, p < n), z3.And(p < end, self.byte_term(k, p) == C(0, p)))
                   for p in pts]
            if self.w.nonzero_source:
                # a hole (reads as zero) is distinguishable from the source at the instantiated points
                cons.extend(z3.Implies(z3.And(0 <= p, p < n), C(0, p) != ZERO8) for p in pts)
                for m in self.w.hs_claims:
                    cons.extend(z3.Implies(z3.And(0 <= p, p < m), C(0, p) != ZERO8) for p in pts)
            for m in self.w.hs_claims:
                cons.append(z3.Implies(h == Hs(ct, m), z3.And(n == m, end >= n, *oks)))
        self.cks_calls.append({"h": h, "n": n, "upto": upto, "path": k})
        ctx.assume(*cons)
        return SymChecksum(h)


class MemHandle:
    def __init__(self, fs, key):
        self.fs, self.key = fs, key
        self.name = key

    def __enter__(self):
        return self

    def __exit__(self, *a):
        return False

    def seek(self, *a):
        raise HostAccess("seek on memory handle")

    def read(self, *a):
        raise HostAccess("read on memory handle")


class MemPath(type(pathlib.Path())):
    """Path whose host-touching methods are answered by (and recorded in) the world"""

    def _w(self):
        return World.cur

    def exists(self, **k):
        w = self._w()
        w.host_access.append(("Path.exists", _pkey(self)))
        return any(_pkey(self) in fs.files or _pkey(self) in fs.dirs for fs in w.all_fs)

    def is_dir(self, **k):
        w = self._w()
        w.host_access.append(("Path.is_dir", _pkey(self)))
        return any(_pkey(self) in fs.dirs for fs in w.all_fs)

    def is_file(self, **k):
        w = self._w()
        w.host_access.append(("Path.is_file", _pkey(self)))
        return any(_pkey(self) in fs.files for fs in w.all_fs)

    def stat(self, **k):
        w = self._w()
        w.host_access.append(("Path.stat", _pkey(self)))
        raise HostAccess(f"stat({self})")

    def open(self, *a, **k):
        return mem_open(self, *a, **k)


def mem_open(p, mode="r", *a, **k):
    w = World.cur
    w.host_access.append(("open", _pkey(p), mode))
    for fs in w.all_fs:
        if _pkey(p) in fs.files:
            return MemHandle(fs, _pkey(p))
    raise FileNotFoundError(str(p))


srcmod.open = mem_open
destmod.open = mem_open
SHIMS_DOC.append("open bound in cfdppy.handler.source/dest (handle onto the in-memory filestore; every call recorded as host access)")
SHIMS_DOC.append("put-request paths are MemPath objects: Path.exists/is_dir/stat answered from the in-memory filestore and recorded as host access")


# --------------------------------------------------------------------------- users / fault handlers
class User(CfdpUserBase):
    def __init__(self, vfs):
        super().__init__(vfs)
        self.ev = []

    def transaction_indication(self, p):
        self.ev.append(("transaction", p.transaction_id, p.originating_transaction_id))

    def eof_sent_indication(self, t):
        self.ev.append(("eof_sent", t))

    def transaction_finished_indication(self, p):
        fp = p.finished_params
        self.ev.append(("finished", p.transaction_id, fp.condition_code, fp.delivery_code,
                        fp.file_status, fp.fault_location))

    def metadata_recv_indication(self, p):
        self.ev.append(("metadata_recv", p.transaction_id, p.source_id, p.file_size,
                        p.source_file_name, p.dest_file_name, p.msgs_to_user))

    def file_segment_recv_indication(self, p):
        self.ev.append(("segment_recv", p.transaction_id, p.offset, p.length))

    def report_indication(self, *a):
        self.ev.append(("report",) + a)

    def suspended_indication(self, *a):
        self.ev.append(("suspended",) + a)

    def resumed_indication(self, *a):
        self.ev.append(("resumed",) + a)

    def fault_indication(self, *a):
        self.ev.append(("fault",) + a)

    def abandoned_indication(self, *a):
        self.ev.append(("abandoned",) + a)

    def eof_recv_indication(self, t):
        self.ev.append(("eof_recv", t))

    def kinds(self):
        return [e[0] for e in self.ev]

    def of(self, kind):
        return [e for e in self.ev if e[0] == kind]


class FH(DefaultFaultHandlerBase):
    def __init__(self):
        super().__init__()
        self.ev = []

    def notice_of_suspension_cb(self, t, c, p):
        self.ev.append(("suspend", t, c, p))

    def notice_of_cancellation_cb(self, t, c, p):
        self.ev.append(("cancel", t, c, p))

    def abandoned_cb(self, t, c, p):
        self.ev.append(("abandon", t, c, p))

    def ignore_cb(self, t, c, p):
        self.ev.append(("ignore", t, c, p))


# --------------------------------------------------------------------------- the world
class World:
    cur = None

    def __init__(self, ctx, injective=False, nonzero_source=False):
        self.ctx = ctx
        self.sym = ctx.mode == "sym"
        self.mode = ctx.mode
        apply_shims(ctx.mode)
        Clock.reset()
        World.cur = self
        self.all_fs = []
        self.host_access = []
        self.witness = None
        self.injective = injective
        self.nonzero_source = nonzero_source
        self.hs_args = []
        self.hs_claims = []  # sizes m for which a peer claimed checksum Hs(m)
        self._src = None
        self.nbad = 0
        self.timer = TimerProv(ctx.mode)
        self.wire_anomalies = []
        self.corrupt_points = []
        self.bad_payloads = []
        if self.sym:
            ctx.model_hooks.append(self._model_hook)
            # the checksum of nothing is zero for every implemented type (CRC-32, CRC-32C, modular)
            ctx.assume(*[Hs(int(t), 0) == 0 for t in (ChecksumType.CRC_32, ChecksumType.CRC_32C, ChecksumType.MODULAR)])

    def fs(self, name):
        f = MemFs(self, name)
        self.all_fs.append(f)
        return f

    # -- genuine source content (conc mode)
    def src_bytes(self, start, n):
        if self._src is None:
            rnd = random.Random(0xC0FFEE + self.ctx.seed)
            rest = bytes(rnd.randrange(1, 256) for _ in range(4096))
            given = bytes.fromhex(self.ctx.model_in.get("_src", "")) if not self.sym else b""
            self._src = given + rest[len(given):]
        if start + n > len(self._src):
            if start + n > 1 << 18:
                raise symex.HarnessError("concrete source content longer than 256 KiB")
            rnd = random.Random(0xB16 + self.ctx.seed)
            self._src = self._src + rnd.randbytes((1 << 18) - len(self._src)).replace(b"\0", b"\1")
        return self._src[start:start + n]

    def alt_bytes(self, n):
        rnd = random.Random(0xA17 + self.ctx.seed)
        if n > 4096:
            raise symex.HarnessError("concrete alternative content longer than 4096 bytes")
        return bytes(rnd.randrange(1, 256) for _ in range(4096))[:n]

    def payload(self, start, n, corrupt=False, jname=None):
        """payload carrying bytes [start, start+n) of the genuine file, or a corrupted copy.
        `corrupt` may be symbolic; the index of a differing byte is the harness variable jname"""
        if self.sym:
            if corrupt is False:
                return SymBytes(0, start, n)
            self.nbad += 1
            k = self.nbad
            j = self.ctx.int(jname or f"j{k}")
            self.corrupt_points.append(j)
            cb = _zb(corrupt)
            jj = _z(j)
            self.ctx.assume(z3.Implies(cb, z3.And(_z(start) <= jj, jj < _z(start) + _z(n),
                                                  C(k, jj) != C(0, jj))),
                            z3.Implies(z3.Not(cb), jj == -1))
            self.bad_payloads.append((k, start, n))
            return SymBytes(SymInt(z3.If(cb, z3.IntVal(k), z3.IntVal(0))), start, n)
        b = bytearray(self.src_bytes(start, n))
        if corrupt is not False:
            self.nbad += 1
            j = self.ctx.int(jname or f"j{self.nbad}")
            if corrupt:
                if not (start <= j < start + n):
                    raise symex.HarnessError("corruption index outside the payload")
                stored = (self.ctx.model_in.get("_bad") or {}).get(str(self.nbad))
                if stored is not None and len(stored) == 2 * n:
                    b = bytearray(bytes.fromhex(stored))
                else:
                    b[j - start] ^= 0xFF
        return bytes(b)

    def _model_hook(self, ev):
        """bytes of the genuine file and of corrupted payloads as the solver chose them"""
        out = {}
        size = None
        for name in ("S",):
            if name in self.ctx.vars:
                size = ev(self.ctx.vars[name]).as_long()
        if size is not None and 0 <= size <= 2048:
            out["_src"] = bytes(ev(C(0, i)).as_long() for i in range(size)).hex()
        if "old_len" in self.ctx.vars:
            # content of a pre-existing (foreign) destination file as the solver chose it
            n_old = ev(self.ctx.vars["old_len"]).as_long()
            if 0 <= n_old <= 2048:
                out["_old"] = bytes(ev(C(-1, i)).as_long() % 256 for i in range(n_old)).hex()
        bad = {}
        for (k, start, n) in self.bad_payloads:
            st, nn = ev(_z(start)).as_long(), ev(_z(n)).as_long()
            if 0 <= nn <= 2048:
                bad[str(k)] = bytes(ev(C(k, st + i)).as_long() for i in range(nn)).hex()
        if bad:
            out["_bad"] = bad
        return out

    def checksum(self, ctype, n):
        """the checksum a genuine sender computes over the first n bytes"""
        if ctype == ChecksumType.NULL_CHECKSUM:
            return bytes(4)
        if self.sym:
            self.hs_claims.append(_z(n))
            return SymChecksum(Hs(int(ctype), _z(n)))
        data = self.src_bytes(0, n)
        if ctype == ChecksumType.MODULAR:
            tot = 0
            for i in range(0, len(data), 4):
                tot += int.from_bytes(data[i:i + 4].ljust(4, b"\0"), "big")
            return (tot % 2**32).to_bytes(4, "big")
        c = PredefinedCrc("crc32" if ctype == ChecksumType.CRC_32 else "crc32c")
        c.update(data)
        return c.digest()

    def tick(self, dt):
        Clock.advance(dt)

    def wire(self, pdu):
        """what a serialising link does to a PDU"""
        if self.sym and _has_symbolic(pdu):
            back = copy.deepcopy(pdu)
            # the numeric fields stay symbolic, but TLV options are concrete: they arrive as the parser
            # delivers them (generic CfdpTlv objects, not the typed TLV classes the sender used)
            opts = getattr(back, "_options", None)
            if opts and not _has_symbolic(opts):
                from spacepackets.cfdp.tlv import CfdpTlv
                try:
                    back._options = [CfdpTlv.unpack(bytes(o.pack())) for o in opts]
                except Exception as e:  # noqa: BLE001
                    self.wire_anomalies.append(f"options of {type(pdu).__name__}: {type(e).__name__}: {e}")
                    back._options = copy.deepcopy(opts)
            return back
        # no symbolic field (ACK, Finished, Prompt, concrete NAK ...): real serialisation in both modes,
        # so that what the parser makes of a field (plain int instead of an enum member, ...) is seen
        try:
            raw = pdu.pack()
            back = PduFactory.from_raw(bytes(raw))
        except Exception as e:  # noqa: BLE001 - spacepackets cannot round-trip this PDU
            self.wire_anomalies.append(f"{type(pdu).__name__}: {type(e).__name__}: {e}")
            return copy.deepcopy(pdu)
        if back is None or back != pdu:
            # known spacepackets parser defects (EOF condition code not shifted, empty File Data)
            self.wire_anomalies.append(f"{type(pdu).__name__}: round trip differs")
            return copy.deepcopy(pdu)
        return back


def _has_symbolic(obj, depth=0, seen=None):
    """does a PDU (or anything built from plain objects) carry a symbolic value?"""
    if isinstance(obj, (symex.SymInt, symex.SymBool, SymBytes, SymChecksum)) or z3.is_expr(obj):
        return True
    if type(obj).__name__ in ("SymByteSeq",):
        return True
    if obj is None or isinstance(obj, (int, str, bytes, bytearray, float, enum.Enum)):
        return False
    if depth > 8:
        return False
    seen = seen if seen is not None else set()
    if id(obj) in seen:
        return False
    seen.add(id(obj))
    if isinstance(obj, dict):
        return any(_has_symbolic(v, depth + 1, seen) for v in obj.values())
    if isinstance(obj, (list, tuple, set, frozenset)):
        return any(_has_symbolic(v, depth + 1, seen) for v in obj)
    d = getattr(obj, "__dict__", None)
    if d is not None:
        return any(_has_symbolic(v, depth + 1, seen) for v in d.values())
    slots = getattr(type(obj), "__slots__", ())
    return any(_has_symbolic(getattr(obj, a, None), depth + 1, seen) for a in slots)


class WireMismatch(Exception):
    def __init__(self, pdu, back):
        super().__init__(f"pack/unpack changed the PDU: {pdu!r} -> {back!r}")
        self.pdu, self.back = pdu, back
