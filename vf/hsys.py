"""H-SYS: real SourceHandler + real DestHandler + copying link + entity-level responder."""
from __future__ import annotations

import z3

from cfdppy.handler.common import PacketDestination, get_packet_destination
from cfdppy.handler.dest import acknowledge_inactive_eof_pdu
from spacepackets.cfdp import ChecksumType, PduType
from spacepackets.cfdp.pdu import DirectiveType, TransactionStatus

from . import rigs, symex
from .hdst import describe
from .rigs import ACK, UNACK, DestRig, Ids, SrcRig, pdu_kind
from .symex import SymBool, _z
from .world import C, Clock, World

FAULTS = ["deliver", "drop", "dup", "swap"]


class System:
    def __init__(self, ctx, w, *, ids=None, mode=ACK, closure=False, cktype=ChecksumType.CRC_32, crc=False,
                 imm=True, seg_len=None, max_packet_len=2048, limits=2, S=None, M=2, K=0,
                 dst_name="/dst/file.bin", src_name="/src/file.bin", put_mode=None, put_closure=None,
                 faults=("deliver", "drop", "dup"), delay_faults=True, indications=None, fault_table=None):
        self.ctx, self.w = ctx, w
        self.ids = ids or Ids(2, 2)
        self.mode, self.closure = mode, closure
        common = dict(mode=mode, closure=closure, cktype=cktype, crc=crc, seg_len=seg_len,
                      max_packet_len=max_packet_len, ack_limit=limits, nak_limit=limits,
                      check_limit=limits, immediate_nak=imm)
        self.src = SrcRig(w, self.ids, indications=indications, fault_table=fault_table, **common)
        self.dst = DestRig(w, self.ids, indications=indications, fault_table=fault_table, **common)
        self.S = S
        self.src.fs.add_source_file(src_name, S)
        self.src_name, self.dst_name = src_name, dst_name
        self.put_mode, self.put_closure = put_mode, put_closure
        self.to_dst, self.to_src = [], []
        self.K, self.used = K, 0
        self.nfault = 0
        self.faults = list(faults)
        self.delay_faults = delay_faults
        self.trace = []
        self.exceptions = []
        self.finished_dst_tids = False
        self.rounds = 0
        self.quiet_expiries = 0

    # -- link
    def transmit(self, pdu, q, who):
        pdu = self.w.wire(pdu)
        kind = "deliver"
        if self.used < self.K:
            self.nfault += 1
            kind = self.ctx.pick(f"f{self.nfault}", self.faults)
        if kind == "drop":
            self.used += 1
            self.trace.append((who, "drop", describe(pdu)))
            return
        if kind == "dup":
            self.used += 1
            q.append(pdu)
            q.append(self.w.wire(pdu))
            self.trace.append((who, "dup", describe(pdu)))
            return
        if kind in ("swap", "swap2"):
            # held back behind the next one / two PDUs of the same direction (reordering)
            self.used += 1
            q.append(["HOLD", pdu, 1 if kind == "swap" else 2])
            self.trace.append((who, kind, describe(pdu)))
            return
        q.append(pdu)

    @staticmethod
    def _pop(q):
        if not q:
            return None
        if isinstance(q[0], list):
            # a held-back PDU lets the next n PDUs of its direction pass; it waits for them
            if q[0][2] > 0:
                if len(q) >= 2:
                    q[0][2] -= 1
                    nxt = q.pop(1)
                    if isinstance(nxt, list):
                        nxt = nxt[1]
                    return nxt
                return None
            return q.pop(0)[1]
        return q.pop(0)

    def _only_held(self):
        items = self.to_dst + self.to_src
        return bool(items) and all(isinstance(i, list) and i[2] > 0 for i in items)

    def _release_holds(self):
        for q in (self.to_dst, self.to_src):
            for i in q:
                if isinstance(i, list):
                    i[2] = 0

    def start(self):
        o = self.src.put(src=self.src_name, dst=self.dst_name, mode=self.put_mode, closure=self.put_closure,
                         **getattr(self, "put_kwargs", {}))
        self._note("src", o)
        return o

    def _note(self, who, o):
        if o.exc is not None:
            self.exceptions.append((who, o))
        self.trace.append((who, str(o.call), rigs.exc_name(o.exc), [describe(p) for p in o.pdus], o.step1.name))

    def src_done(self):
        return self.src.idle and any(e[0] == "finished" for e in self.src.user.ev)

    def dst_done(self):
        return self.dst.idle and any(e[0] == "finished" for e in self.dst.user.ev)

    def step_src(self, deliver=True):
        pkt = self._pop(self.to_src) if deliver else None
        if pkt is not None and self.src.idle:
            # entity level: the transaction is closed at the sender
            if pdu_kind(pkt) == "FIN":
                a = rigs.ack(pkt.pdu_header.pdu_conf, DirectiveType.FINISHED_PDU, pkt.condition_code,
                             TransactionStatus.TERMINATED)
                self.trace.append(("src-entity", "ack-inactive-finished"))
                self.transmit(a, self.to_dst, "src")
            return None
        o = self.src.sm(pkt)
        self._note("src", o)
        if o.exc is not None and type(o.exc).__name__ in rigs.ADMISSION_SRC:
            # the entity drops a PDU its handler refuses and keeps the handler running
            self.exceptions.pop()
            o2 = self.src.sm(None)
            self._note("src", o2)
            o.pdus = o.pdus + o2.pdus
        for p in o.pdus:
            self.transmit(p, self.to_dst, "src")
        return o

    def step_dst(self, deliver=True):
        pkt = self._pop(self.to_dst) if deliver else None
        if pkt is not None and self.dst.idle and any(e[0] == "finished" for e in self.dst.user.ev):
            # entity level: transaction already terminated at the receiver
            if pdu_kind(pkt) == "EOF":
                a = acknowledge_inactive_eof_pdu(pkt, TransactionStatus.TERMINATED)
                self.trace.append(("dst-entity", "ack-inactive-eof"))
                self.transmit(a, self.to_src, "dst")
            return None
        o = self.dst.sm(pkt)
        self._note("dst", o)
        if o.exc is not None and type(o.exc).__name__ in rigs.ADMISSION_DEST:
            self.exceptions.pop()
            o2 = self.dst.sm(None)
            self._note("dst", o2)
            o.pdus = o.pdus + o2.pdus
        for p in o.pdus:
            self.transmit(p, self.to_src, "dst")
        return o

    def quiet(self):
        return not self.to_dst and not self.to_src

    def run(self, max_rounds, pacing=None):
        """returns True if both sides finished and went idle within max_rounds"""
        for r in range(max_rounds):
            self.rounds = r + 1
            if self.quiet():
                if r > 0 and self._stalled:
                    # quiescent: timers keep expiring
                    self.w.tick(1)
                    self.quiet_expiries += 1
                    self.trace.append(("clock", "+1 (quiescent)"))
            elif self.delay_faults and self.used < self.K:
                self.nfault += 1
                if self.ctx.choice(f"delay{self.nfault}", 2):
                    self.used += 1
                    self.w.tick(1)
                    self.trace.append(("clock", "+1 (delay fault)"))
            before = (len(self.to_dst), len(self.to_src), self.src.h.step, self.dst.h.step)
            if pacing is not None:
                for _ in range(pacing("src", r)):
                    self.step_src(deliver=False)
            self.step_src()
            if pacing is not None:
                for _ in range(pacing("dst", r)):
                    self.step_dst(deliver=False)
            self.step_dst()
            after = (len(self.to_dst), len(self.to_src), self.src.h.step, self.dst.h.step)
            if before == after and self._only_held():
                # nothing else is going to overtake the held PDUs: they are simply late
                self._release_holds()
                self.trace.append(("link", "held PDUs released"))
            self._stalled = self.quiet() and before == after
            if self.exceptions:
                return False
            if self.src_done() and self.dst_done() and self.quiet():
                return True
            if self.src_done() and self.mode == UNACK and not self._needs_dst():
                return True
        return False

    _stalled = False

    def _needs_dst(self):
        return not self.dst_done()

    # -- oracles
    def identical(self, x, path="/dst/file.bin"):
        fs = self.dst.fs
        if path not in fs.files:
            return False
        if not self.w.sym:
            return fs.conc_bytes(path) == self.w.src_bytes(0, self.S)
        end = _z(fs.file_end(path))
        xx = _z(x)
        return SymBool(z3.And(end == _z(self.S),
                              z3.Implies(z3.And(0 <= xx, xx < _z(self.S)), fs.byte_term(path, xx) == C(0, xx))))
