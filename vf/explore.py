"""Parallel exhaustive path exploration on top of symex, with concrete-twin replay.

explore(spec) runs every feasible path of a harness inside its stated bounds and
returns an aggregate Result.  Work is split by decision prefix over a process pool.
"""
from __future__ import annotations

import concurrent.futures as cf
import importlib
import multiprocessing as mp
import os
import random
import time
import traceback
import zlib

import z3

from . import symex
from .symex import HarnessError, PathEnd, SymBool, SymInt

NPROC = int(os.environ.get("VF_NPROC", str(min(16, os.cpu_count() or 1))))


class Spec:
    """what to explore: harness = 'module:function', params = picklable kwargs"""

    def __init__(self, name, harness, params=None, twin_share=0.1, expect_fail_reach=None,
                 allow_truncated=False, dump_smt=False, max_paths=None, obligations=()):
        self.name = name
        self.harness = harness
        self.params = params or {}
        self.twin_share = twin_share
        self.allow_truncated = allow_truncated
        self.dump_smt = dump_smt
        self.max_paths = max_paths
        self.obligations = tuple(obligations)


def _load(h):
    mod, fn = h.split(":")
    return getattr(importlib.import_module(mod), fn)


def eval_notes(notes, ctx_eval):
    def ev(x):
        if isinstance(x, SymInt):
            return ctx_eval(x.e).as_long()
        if isinstance(x, SymBool):
            return bool(z3.is_true(ctx_eval(x.e)))
        if isinstance(x, (list, tuple)):
            return [ev(y) for y in x]
        if isinstance(x, dict):
            return {str(k): ev(v) for k, v in x.items()}
        if hasattr(x, "note_eval"):
            return ev(x.note_eval())
        if isinstance(x, (int, str, bool, type(None), float)):
            return x
        if isinstance(x, bytes):
            return x.hex()
        return repr(x)

    return ev(notes)


def plain(x):
    if isinstance(x, (list, tuple)):
        return [plain(y) for y in x]
    if isinstance(x, dict):
        return {str(k): plain(v) for k, v in x.items()}
    if hasattr(x, "note_eval"):
        return plain(x.note_eval())
    if isinstance(x, bool) or isinstance(x, (str, type(None), float)):
        return x
    if isinstance(x, int):
        return int(x)
    if isinstance(x, bytes):
        return x.hex()
    return repr(x)


def _twin(harness, params, model, seed):
    """run concrete twin; returns dict(status, info, notes, error)"""
    try:
        st, info, notes, cover = symex.run_concrete(harness, params, model, seed)
        return {"status": st, "info": plain(info), "notes": plain(notes), "error": None}
    except HarnessError as e:
        return {"status": "harness_error", "info": str(e), "notes": None, "error": str(e)}
    except BaseException as e:  # noqa: BLE001 - anything leaking out of the twin is recorded
        return {"status": "exception", "info": f"{type(e).__name__}: {e}",
                "notes": None, "error": traceback.format_exc(limit=6)}


def _work(args):
    """explore the subtree under `prefix` for about `slice_s` seconds"""
    (hname, params, prefix, slice_s, twin_share, seed, dump_smt) = args
    harness = _load(hname)
    t0 = time.perf_counter()
    floor = len(prefix)
    agg = {
        "paths": 0, "status": {}, "queries": 0, "prop_queries": 0, "solver_s": 0.0,
        "cover": set(), "fails": [], "samples": [], "twin_run": 0, "twin_match": 0,
        "twin_mismatch": [], "max_decisions": 0, "prop_checked": 0, "pending": [],
        "other": {}, "problems": [], "sites": {}, "smt": [], "nontrivial": 0,
    }
    cur = prefix
    rnd = random.Random(seed ^ zlib.crc32(repr([d[0] for d in prefix]).encode()))
    while cur is not None:
        want_twin = twin_share > 0 and rnd.random() < twin_share
        try:
            res = symex.run_path(harness, params, cur, want_model=want_twin, dump_smt=dump_smt,
                                 seed=seed)
        except HarnessError as e:
            agg["problems"].append(f"harness error: {e}")
            break
        agg["paths"] += 1
        agg["status"][res.status] = agg["status"].get(res.status, 0) + 1
        agg["queries"] += res.queries
        agg["prop_queries"] += res.prop_queries
        agg["solver_s"] += res.solver_s
        agg["cover"] |= res.cover
        agg["prop_checked"] += res.prop_checked
        agg["max_decisions"] = max(agg["max_decisions"], res.decisions)
        if res.prop_checked > 0 and res.status in ("pass", "fail", "other"):
            agg["nontrivial"] += 1
        if res.smt:
            agg["smt"].extend(res.smt[:2])
        for d in res.trace[floor:]:
            if d[1]:
                k = f"{os.path.basename(d[2][0])}:{d[2][1]}"
                agg["sites"][k] = agg["sites"].get(k, 0) + 1
        if res.status == "other":
            k = str(res.info)
            agg["other"][k] = agg["other"].get(k, 0) + 1
        if res.status in ("unsupported", "inconclusive", "truncated"):
            if len(agg["problems"]) < 5:
                agg["problems"].append(f"{res.status}: {res.info} {res.tb or ''}")
        if res.status == "fail":
            rec = {"clause": res.info[0], "info": plain(res.info[1]), "model": res.model,
                   "decisions": res.decisions}
            if res.model is not None:
                rec["twin"] = _twin(harness, params, res.model, seed)
            if len(agg["fails"]) < 40:
                agg["fails"].append(rec)
            else:
                agg["fails_dropped"] = agg.get("fails_dropped", 0) + 1
        elif want_twin and res.model is not None and res.status in ("pass", "other"):
            tw = _twin(harness, params, res.model, seed)
            agg["twin_run"] += 1
            ok = tw["status"] == res.status and (
                res.status != "other" or str(tw["info"]) == str(plain(res.info)))
            if ok:
                agg["twin_match"] += 1
            elif len(agg["twin_mismatch"]) < 5:
                agg["twin_mismatch"].append(
                    {"model": res.model, "sym": [res.status, plain(res.info)], "conc": tw})
            if len(agg["samples"]) < 2:
                agg["samples"].append({"model": res.model, "status": res.status,
                                       "trace": tw["notes"]})
        nxt = symex.next_prefix(res.trace, floor)
        if nxt is not None and time.perf_counter() - t0 > slice_s:
            agg["pending"] = symex.pending_prefixes(res.trace, floor)
            break
        cur = nxt
    agg["cover"] = sorted(agg["cover"])
    return agg


class Result:
    def __init__(self, spec):
        self.spec = spec
        self.paths = 0
        self.status = {}
        self.queries = 0
        self.prop_queries = 0
        self.solver_s = 0.0
        self.cover = set()
        self.fails = []
        self.fails_dropped = 0
        self.samples = []
        self.twin_run = 0
        self.twin_match = 0
        self.twin_mismatch = []
        self.max_decisions = 0
        self.prop_checked = 0
        self.other = {}
        self.problems = []
        self.sites = {}
        self.smt = []
        self.nontrivial = 0
        self.wall_s = 0.0
        self.capped = False

    def merge(self, a):
        self.paths += a["paths"]
        for k, v in a["status"].items():
            self.status[k] = self.status.get(k, 0) + v
        self.queries += a["queries"]
        self.prop_queries += a["prop_queries"]
        self.solver_s += a["solver_s"]
        self.cover |= set(a["cover"])
        self.fails.extend(a["fails"])
        self.fails_dropped += a.get("fails_dropped", 0)
        if len(self.samples) < 6:
            self.samples.extend(a["samples"])
        self.twin_run += a["twin_run"]
        self.twin_match += a["twin_match"]
        self.twin_mismatch.extend(a["twin_mismatch"])
        self.max_decisions = max(self.max_decisions, a["max_decisions"])
        self.prop_checked += a["prop_checked"]
        for k, v in a["other"].items():
            self.other[k] = self.other.get(k, 0) + v
        self.problems.extend(a["problems"])
        for k, v in a["sites"].items():
            self.sites[k] = self.sites.get(k, 0) + v
        if len(self.smt) < 60:
            self.smt.extend(a["smt"])
        self.nontrivial += a["nontrivial"]

    @property
    def inconclusive(self):
        n = sum(self.status.get(k, 0) for k in ("unsupported", "inconclusive"))
        if not self.spec.allow_truncated:
            n += self.status.get("truncated", 0)
        return n

    def summary(self):
        return {
            "harness": self.spec.name,
            "params": explore_plain_params(self.spec.params),
            "paths": self.paths,
            "path_status": dict(sorted(self.status.items())),
            "queries": self.queries,
            "property_queries_unsat": self.prop_queries,
            "property_clauses_evaluated": self.prop_checked,
            "solver_s": round(self.solver_s, 2),
            "wall_s": round(self.wall_s, 2),
            "max_decisions_on_a_path": self.max_decisions,
            "ended_by_other_property": dict(sorted(self.other.items())),
            "twin_replays": {"run": self.twin_run, "matching": self.twin_match},
            "coverage_tags": sorted(self.cover),
            "top_fork_sites": dict(sorted(self.sites.items(), key=lambda kv: -kv[1])[:6]),
            "capped": self.capped,
        }


def explore_plain_params(p):
    return {k: (v if isinstance(v, (int, str, bool, float, type(None))) else repr(v))
            for k, v in p.items()}


_pool = None


def pool():
    global _pool
    if _pool is None:
        _pool = cf.ProcessPoolExecutor(NPROC, mp_context=mp.get_context("fork"))
    return _pool


def shutdown():
    global _pool
    if _pool is not None:
        procs = list(getattr(_pool, "_processes", {}).values())
        _pool.shutdown(wait=False, cancel_futures=True)
        for p in procs:
            try:
                p.kill()
            except Exception:  # noqa: BLE001
                pass
        _pool = None


def explore(spec, seed=0, serial=False):
    res = Result(spec)
    t0 = time.perf_counter()
    _load(spec.harness)  # import in the parent so that forked workers inherit it
    mk = lambda prefix, sl: (spec.harness, spec.params, prefix, sl, spec.twin_share, seed,
                             spec.dump_smt)
    if serial or NPROC == 1:
        todo = [[]]
        while todo:
            a = _work(mk(todo.pop(), 1e9))
            res.merge(a)
            todo.extend(a["pending"])
        res.wall_s = time.perf_counter() - t0
        return res
    ex = pool()
    futs = {ex.submit(_work, mk([], 0.05))}
    queued = 0
    while futs:
        done, futs = cf.wait(futs, return_when=cf.FIRST_COMPLETED)
        for f in done:
            a = f.result()
            res.merge(a)
            if spec.max_paths and res.paths >= spec.max_paths:
                res.capped = True
                continue
            for p in a["pending"]:
                # short slices while the pool is hungry, longer ones afterwards
                sl = 0.2 if len(futs) < 2 * NPROC else 2.0
                futs.add(ex.submit(_work, mk(p, sl)))
        if res.capped:
            for f in futs:
                f.cancel()
            # wait for the running ones
            for f in futs:
                try:
                    if not f.cancelled():
                        res.merge(f.result())
                except cf.CancelledError:
                    pass
            futs = set()
    res.wall_s = time.perf_counter() - t0
    return res
