"""Property runner: explores the specs of one property, triages failures through the
concrete twin and the known-findings file, writes evidence, sets the exit code.

exit 0  property held on everything explored (KNOWN-FINDING lines possible)
exit 1  VIOLATION property=<id> replay=<path>
exit 2  inconclusive / harness error
"""
from __future__ import annotations

import argparse
import hashlib
import importlib
import json
import os
import subprocess
import sys
import tempfile
import time

ROOT = os.path.dirname(os.path.dirname(os.path.abspath(__file__)))
sys.path.insert(0, ROOT)
REPO_SRC = os.environ.get("VF_REPO_SRC", "/repo/src")
OUT = os.environ.get("VF_OUT", ROOT)  # evidence/ and replays/ (tools that examine a scratch copy set this)
if REPO_SRC not in sys.path:
    sys.path.insert(0, REPO_SRC)

from vf import explore as ex  # noqa: E402
from vf import symex  # noqa: E402

import logging  # noqa: E402

logging.disable(logging.CRITICAL)
LEVEL = "other"


def load_known():
    p = os.path.join(ROOT, "known_findings.json")
    if not os.path.exists(p):
        return []
    with open(p) as f:
        return [e for e in json.load(f).get("findings", [])]


def sig_of(fail):
    info = fail.get("info")
    s = fail["clause"]
    if isinstance(info, dict) and info.get("sig"):
        s += "|" + str(info["sig"])
    return s


def repo_functions_hint(mod):
    return getattr(mod, "FUNCTIONS", [])


def cross_check(smt_queries, timeout_s=20):
    """re-decide dumped property queries (expected unsat) with cvc5 and the system z3"""
    out = {"queries": 0, "agree": 0, "disagree": [], "errors": [], "solver_s": 0.0}
    if not smt_queries:
        return out
    tmpd = tempfile.mkdtemp(prefix="vfx-")
    try:
        for i, q in enumerate(smt_queries):
            path = os.path.join(tmpd, f"q{i}.smt2")
            with open(path, "w") as f:
                f.write("(set-logic ALL)\n" + q + "\n(check-sat)\n" if "(check-sat)" not in q
                        else "(set-logic ALL)\n" + q)
            verdicts = {}
            for name, cmd in (("cvc5", ["cvc5", f"--tlimit={timeout_s * 1000}", path]),
                              ("z3-4.8.12", ["/usr/bin/z3", f"-T:{timeout_s}", path])):
                t = time.perf_counter()
                try:
                    r = subprocess.run(cmd, capture_output=True, text=True, timeout=timeout_s + 5)
                    txt = (r.stdout + r.stderr).strip()
                except subprocess.TimeoutExpired:
                    txt = "timeout"
                out["solver_s"] += time.perf_counter() - t
                if "(error" in txt:
                    out["errors"].append(f"{name} q{i}: {txt[:200]}")
                    verdicts[name] = "error"
                else:
                    verdicts[name] = txt.split()[0] if txt else "empty"
            out["queries"] += 1
            if all(v == "unsat" for v in verdicts.values()):
                out["agree"] += 1
            else:
                out["disagree"].append({"query": i, "verdicts": verdicts})
    finally:
        import shutil

        shutil.rmtree(tmpd, ignore_errors=True)
    out["solver_s"] = round(out["solver_s"], 2)
    return out


def run_property(pid, tier, seed, only=None, verbose=False):
    t0 = time.perf_counter()
    mod = importlib.import_module(f"vf.harness.{pid.lower()}")
    specs = mod.plan(tier)
    if only:
        specs = [s for s in specs if only in s.name]
    known = [k for k in load_known() if k["property"] == pid and not k.get("fixed")]
    results = []
    problems = []
    violations = []
    known_hits = {}
    unreproduced = []
    extra = []
    for s in specs:
        if tier == "thorough":
            s.dump_smt = True
        r = ex.explore(s, seed=seed)
        results.append(r)
        if verbose:
            print(json.dumps(r.summary()), file=sys.stderr)
        if r.problems:
            problems.extend(f"{s.name}: {p}" for p in r.problems[:3])
        if r.inconclusive:
            problems.append(f"{s.name}: {r.inconclusive} inconclusive paths {r.status}")
        if r.twin_mismatch:
            problems.append(f"{s.name}: concrete twin disagrees on a passing path: "
                            f"{json.dumps(r.twin_mismatch[0])[:600]}")
        if r.capped:
            problems.append(f"{s.name}: path cap reached, exploration incomplete")
        for ob in s.obligations:
            if ob not in r.cover:
                problems.append(f"{s.name}: coverage obligation not met: {ob}")
        for f in r.fails:
            f["spec"] = s.name
            f["harness"] = s.harness
            f["params"] = s.params
            tw = f.get("twin") or {}
            reproduced = tw.get("status") == "fail" and (tw.get("info") or [None])[0] == f["clause"]
            if not reproduced:
                unreproduced.append(f)
                continue
            sg = sig_of(f)
            hit = next((k for k in known if k["signature"] == sg), None)
            if hit is not None:
                known_hits.setdefault(sg, {"entry": hit, "count": 0, "example": f})
                known_hits[sg]["count"] += 1
            else:
                violations.append(f)
    # non-exploration obligations (direct solver lemmas, concrete validation)
    if hasattr(mod, "extra_checks"):
        for name, fn in mod.extra_checks(tier, seed):
            try:
                e = fn()
            except symex.HarnessError as err:
                e = {"ok": None, "detail": f"harness error: {err}"}
            e["name"] = name
            extra.append(e)
            if e.get("ok") is False:
                f = {"clause": name, "info": e.get("detail"), "model": e.get("counterexample"),
                     "spec": name, "harness": None, "params": {}, "twin": {"status": "fail"}}
                sg = sig_of(f)
                hit = next((k for k in known if k["signature"] == sg), None)
                if hit is not None:
                    known_hits.setdefault(sg, {"entry": hit, "count": 0, "example": f})
                    known_hits[sg]["count"] += 1
                else:
                    violations.append(f)
            elif e.get("ok") is None:
                problems.append(f"{name}: {e.get('detail')}")
    xs = None
    if tier == "thorough":
        qs = []
        for r in results:
            qs.extend(r.smt[:8])
        xs = cross_check(qs[:80])
        if xs["disagree"] or xs["errors"]:
            problems.append(f"cross-solver disagreement/errors: {xs['disagree'][:2]} {xs['errors'][:2]}")
    for f in unreproduced[:3]:
        problems.append(
            f"{f['spec']}: counterexample for clause {f['clause']} does not reproduce concretely "
            f"(twin: {json.dumps(f.get('twin'))[:400]}; model {f.get('model')})")

    # ---- replay files for new violations
    out_lines = []
    seen = set()
    for f in violations:
        sg = sig_of(f)
        if sg in seen:
            continue
        seen.add(sg)
        h = hashlib.sha1(sg.encode()).hexdigest()[:10]
        d = os.path.join(OUT, "replays", pid)
        os.makedirs(d, exist_ok=True)
        path = os.path.join(d, f"{h}.json")
        with open(path, "w") as fh:
            json.dump({"property": pid, "signature": sg, "harness": f["harness"],
                       "params": f["params"], "model": f["model"], "clause": f["clause"],
                       "info": f["info"], "concrete_trace": (f.get("twin") or {}).get("notes")},
                      fh, indent=1, default=repr)
        out_lines.append(f"VIOLATION property={pid} replay={path}")
    for sg, kh in sorted(known_hits.items()):
        out_lines.append(f"KNOWN-FINDING: property={pid} {kh['entry']['what']} "
                         f"[signature {sg}; {kh['count']} paths]")

    wall = time.perf_counter() - t0
    write_evidence(pid, tier, seed, mod, results, extra, xs, violations, known_hits, problems, wall)
    for ln in out_lines:
        print(ln)
    tot_paths = sum(r.paths for r in results)
    print(f"[{pid} {tier}] specs={len(results)} paths={tot_paths} "
          f"queries={sum(r.queries for r in results)} prop_unsat={sum(r.prop_queries for r in results)} "
          f"violations={len(seen)} known={len(known_hits)} problems={len(problems)} wall={wall:.1f}s")
    if seen:
        return 1
    if problems:
        for p in problems[:12]:
            print("INCONCLUSIVE:", p[:1500])
        return 2
    return 0


def write_evidence(pid, tier, seed, mod, results, extra, xs, violations, known_hits, problems, wall):
    paths = sum(r.paths for r in results)
    nontriv = sum(r.nontrivial for r in results)
    status = {}
    for r in results:
        for k, v in r.status.items():
            status[k] = status.get(k, 0) + v
    samples = []
    for r in results:
        for s in r.samples[:1]:
            samples.append({"harness": r.spec.name, **s})
        if len(samples) >= 6:
            break
    if not samples:
        for e in extra[:3]:
            samples.append({"obligation": e.get("name"), "detail": e.get("detail")})
    n_extra = len(extra)
    n_extra_ok = sum(1 for e in extra if e.get("ok"))
    ev = {
        "property_id": pid,
        "tier": tier,
        "seed": int(seed),
        "level": LEVEL,
        "wall_s": round(wall, 2),
        "violations": len({ex_sig(f) for f in violations}),
        "coverage": {
            "explanation": (
                "Bounded symbolic execution of the real functions from /repo/src with z3 deciding "
                "every branch on a symbolic value; all feasible paths inside the stated bounds are "
                "explored and each property clause is an SMT query (negation unsat = holds for every "
                "input value following that path). " + getattr(mod, "EXPLANATION", "")),
            "evaluations": max(paths + n_extra, 1),
            "distinct_nontrivial": max(nontriv + n_extra_ok, 0),
            "rule": ("one evaluation = one feasible path (distinct decision sequence) through the real "
                     "code, or one directly discharged solver lemma; non-trivial = the path reached and "
                     "evaluated at least one property clause"),
            "samples": samples or [{"note": "no sample recorded"}],
            "exhaustive": bool(not problems and all(not r.capped for r in results)),
            "obligations": sum(r.prop_checked for r in results) + n_extra,
            "discharged": sum(r.prop_checked for r in results) + n_extra_ok
            - sum(len(r.fails) + r.fails_dropped for r in results),
            "bounds": getattr(mod, "BOUNDS", {}).get(tier),
            "outside_bounds": getattr(mod, "OUTSIDE", None),
            "functions_encoded": repo_functions_hint(mod),
            "stubs_and_shims": _shims_doc(),
            "paths": {"explored": paths, "by_status": dict(sorted(status.items()))},
            "queries": sum(r.queries for r in results),
            "property_queries_unsat": sum(r.prop_queries for r in results),
            "solver_s": round(sum(r.solver_s for r in results), 2),
            "twin_replays": {"run": sum(r.twin_run for r in results),
                             "matching": sum(r.twin_match for r in results)},
            "cross_solver": xs,
            "per_harness": [r.summary() for r in results],
            "direct_obligations": extra,
            "known_findings_reported": [
                {"signature": sg, "paths": kh["count"], "what": kh["entry"]["what"],
                 "example_model": kh["example"].get("model")} for sg, kh in sorted(known_hits.items())],
            "new_violations": [{"signature": ex_sig(f), "model": f.get("model"), "info": f.get("info")}
                               for f in violations[:5]],
            "problems": problems[:10],
        },
        "assumptions": getattr(mod, "ASSUMPTIONS", []),
    }
    d = os.path.join(OUT, "evidence")
    os.makedirs(d, exist_ok=True)
    with open(os.path.join(d, f"{pid}.json"), "w") as f:
        json.dump(ev, f, indent=1, default=repr)


def _shims_doc():
    try:
        from vf import world

        return list(world.SHIMS_DOC)
    except Exception:  # noqa: BLE001
        return []


def ex_sig(f):
    return sig_of(f)


def replay(pid, path):
    with open(path) as f:
        rp = json.load(f)
    if rp.get("harness") is None:
        mod = importlib.import_module(f"vf.harness.{pid.lower()}")
        return mod.replay_extra(rp)
    harness = ex._load(rp["harness"])
    tw = ex._twin(harness, rp["params"], rp["model"], 0)
    print(json.dumps({"model": rp["model"], "result": tw}, indent=1, default=repr))
    if tw["status"] == "fail":
        print(f"VIOLATION property={pid} replay={path}")
        return 1
    if tw["status"] in ("harness_error", "exception"):
        return 2
    return 0


def main(argv=None):
    ap = argparse.ArgumentParser()
    ap.add_argument("pid")
    ap.add_argument("--tier", default=os.environ.get("VERIF_TIER", "quick"))
    ap.add_argument("--replay")
    ap.add_argument("--only")
    ap.add_argument("-v", action="store_true")
    a = ap.parse_args(argv)
    seed = int(os.environ.get("VERIF_SEED", "0") or 0)
    try:
        if a.replay:
            rc = replay(a.pid, a.replay)
        else:
            rc = run_property(a.pid, a.tier, seed, only=a.only, verbose=a.v)
    except symex.HarnessError as e:
        print("INCONCLUSIVE: harness error:", e)
        rc = 2
    except BaseException as e:  # noqa: BLE001 - never exit 1 without a VIOLATION line
        import traceback

        traceback.print_exc()
        print("INCONCLUSIVE: internal error of the checker:", type(e).__name__, e)
        rc = 2
    finally:
        ex.shutdown()
    sys.stdout.flush()
    os._exit(rc)


if __name__ == "__main__":
    main()
