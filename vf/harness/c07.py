"""C07 -- the source emits a conformant, complete and size-bounded PDU stream (H-SRC)."""
from __future__ import annotations

import copy

from cfdppy.handler.source import TransactionStep as SStep
from spacepackets.cfdp import ChecksumType, ConditionCode, CrcFlag, Direction, LargeFileFlag
from spacepackets.cfdp.pdu.helper import PduFactory
from spacepackets.util import UnsignedByteField

from vf import rigs, symex
from vf.explore import Spec
from vf.rigs import ACK, UNACK, Ids, SrcRig, pdu_kind
from vf.symex import sand, sor
from vf.world import SymBytes, World, sym_len

CKTYPES = [ChecksumType.CRC_32, ChecksumType.CRC_32C, ChecksumType.NULL_CHECKSUM, ChecksumType.MODULAR]


def genuine(w, payload, offset):
    """payload carries exactly the file's bytes starting at `offset`"""
    if w.sym:
        if not isinstance(payload, SymBytes):
            return len(payload) == 0
        return sand(payload.src == 0, payload.start == offset)
    return bytes(payload) == w.src_bytes(offset, len(payload))


def setup(ctx, w, ids, M, *, modes=(ACK, UNACK), cktypes=CKTYPES, fixed_closure=None):
    mode = ctx.pick("mode", list(modes))
    closure = bool(ctx.choice("closure", 2)) if fixed_closure is None else fixed_closure
    crc = bool(ctx.choice("crc", 2))
    ck = ctx.pick("cktype", list(cktypes))
    use_L = bool(ctx.choice("has_seg_len", 2))
    hdr = 4 + 2 * ids.id_w + ids.seq_w
    P = ctx.int("P", 1, 65535)
    ctx.assume(P >= hdr + 10 + (2 if crc else 0) + 1)  # EOF PDU and a 1-byte File Data PDU fit
    derived = P - hdr - 4 - (2 if crc else 0)
    if use_L:
        L = ctx.int("L", 1, 65535)
        seg = symex.smin(L, derived)  # effective segment length
    else:
        L = None
        seg = derived
    S = ctx.int("S", 0, 2**20)
    ctx.assume(S <= M * seg)
    rig = SrcRig(w, ids, mode=mode, closure=closure, seg_len=L, max_packet_len=P, crc=crc, cktype=ck)
    rig.fs.add_source_file("/src/file.bin", S)
    cfg = dict(mode=mode, closure=closure, crc=crc, ck=ck, P=P, L=L, seg=seg, S=S, hdr=hdr)
    return rig, cfg


def check_header(ctx, w, rig, cfg, p, tag):
    ids = rig.ids
    ctx.prop("hdr_source_id", p.source_entity_id.value == ids.src.value
             and p.source_entity_id.byte_len == ids.id_w, lambda: {"sig": tag})
    ctx.prop("hdr_dest_id", p.dest_entity_id.value == ids.dst.value
             and p.dest_entity_id.byte_len == ids.id_w, lambda: {"sig": tag})
    ctx.prop("hdr_seq_width", p.transaction_seq_num.byte_len == ids.seq_w, lambda: {"sig": tag})
    ctx.prop("hdr_mode", p.transmission_mode == cfg["mode"], lambda: {"sig": tag})
    ctx.prop("hdr_crc_flag", p.crc_flag == (CrcFlag.WITH_CRC if cfg["crc"] else CrcFlag.NO_CRC),
             lambda: {"sig": tag})
    ctx.prop("hdr_direction", p.direction == Direction.TOWARDS_RECEIVER, lambda: {"sig": tag})
    ctx.prop("hdr_normal_file_flag", p.file_flag == LargeFileFlag.NORMAL, lambda: {"sig": tag})


def parsable(w, p):
    if w.sym:
        return True
    try:
        raw = bytes(p.pack())
        back = PduFactory.from_raw(raw)
        return back is not None and type(back) is type(p) and bytes(back.pack()) == raw \
            and len(raw) == p.packet_len
    except Exception:  # noqa: BLE001
        return False


def stream_oracle(ctx, w, rig, cfg, calls):
    """calls: list of Obs in order, from the first state-machine call after the put request"""
    S, seg, P = cfg["S"], cfg["seg"], cfg["P"]
    pdus = [(i, p) for i, o in enumerate(calls) for p in o.pdus]
    for o in calls:
        ctx.prop("no_exception", o.exc is None,
                 lambda: {"sig": rigs.exc_sig(o.exc), "call": str(o.call)})
        ctx.prop("at_most_one_file_data_per_call", o.kinds().count("FD") <= 1)
    kinds = [pdu_kind(p) for _, p in pdus]
    ctx.note("kinds", kinds)
    ctx.prop("metadata_first", len(kinds) >= 1 and kinds[0] == "MD", lambda: {"sig": str(kinds[:3])})
    md = pdus[0][1]
    check_header(ctx, w, rig, cfg, md, "MD")
    ctx.prop("md_file_size", md.file_size == S)
    ctx.prop("md_names", md.source_file_name == "/src/file.bin" and md.dest_file_name == "/dst/file.bin")
    ctx.prop("md_checksum_type", md.checksum_type == cfg["ck"])
    ctx.prop("md_closure", bool(md.closure_requested) == cfg["closure"])
    ctx.prop("md_parsable", parsable(w, md))
    seq = md.transaction_seq_num.value
    expected = 0
    n_fd = 0
    i = 1
    while i < len(pdus) and kinds[i] == "FD":
        fd = pdus[i][1]
        n = sym_len(fd.file_data)
        ctx.prop("fd_offset_contiguous", fd.offset == expected, lambda: {"sig": f"fd#{n_fd}"})
        ctx.prop("fd_nonempty", n > 0, lambda: {"sig": f"fd#{n_fd}"})
        ctx.prop("fd_within_segment_len", n <= seg, lambda: {"sig": f"fd#{n_fd}"})
        ctx.prop("fd_payload_is_file_content", genuine(w, fd.file_data, fd.offset),
                 lambda: {"sig": f"fd#{n_fd}"})
        ctx.prop("fd_packet_len", fd.packet_len <= P, lambda: {"sig": f"fd#{n_fd}"})
        ctx.prop("fd_same_seq", fd.transaction_seq_num.value == seq)
        check_header(ctx, w, rig, cfg, fd, "FD")
        ctx.prop("fd_parsable", parsable(w, fd))
        expected = expected + n
        n_fd += 1
        i += 1
    ctx.note("n_fd", n_fd)
    ctx.covered(f"segments={n_fd}")
    ctx.prop("eof_follows_file_data", i < len(pdus) and kinds[i] == "EOF",
             lambda: {"sig": str(kinds[i:i + 2])})
    ctx.prop("file_data_tiles_file", expected == S)
    e = pdus[i][1]
    check_header(ctx, w, rig, cfg, e, "EOF")
    ctx.prop("eof_size", e.file_size == S)
    ctx.prop("eof_no_error", e.condition_code == ConditionCode.NO_ERROR)
    ctx.prop("eof_checksum", e.file_checksum == w.checksum(cfg["ck"], S))
    ctx.prop("eof_packet_len", e.packet_len <= P)
    ctx.prop("eof_same_seq", e.transaction_seq_num.value == seq)
    ctx.prop("eof_parsable", parsable(w, e))
    ctx.prop("nothing_after_eof", i == len(pdus) - 1, lambda: {"sig": str(kinds[i + 1:])})
    return pdus


def harness(ctx, M, id_w, seq_w, grows=False):
    w = World(ctx)
    ids = Ids(id_w, seq_w)
    rig, cfg = setup(ctx, w, ids, M)
    o = rig.put()
    ctx.prop("put_accepted", o.exc is None and o.ret is True, lambda: {"sig": rigs.exc_name(o.exc)})
    calls = []
    for k in range(M + 4):
        if grows and k == 1:
            # the source file is still being written: it grows after the transaction has started. What is
            # sent and checksummed is the file as announced in the Metadata PDU
            rig.fs.grow_source_file("/src/file.bin", ctx.int("grow", 1, 64))
            ctx.covered("source_file_grew")
        o = rig.sm()
        calls.append(o)
        if o.exc is not None or "EOF" in o.kinds():
            break
    # one more call must not emit anything new without inbound PDUs / time
    tail = rig.sm()
    ctx.prop("quiet_after_eof", tail.exc is None and not tail.pdus,
             lambda: {"sig": f"{rigs.exc_name(tail.exc)} {tail.kinds()}"})
    stream_oracle(ctx, w, rig, cfg, calls)
    if cfg["mode"] == ACK:
        ctx.prop("acked_waits_for_eof_ack", rig.h.step == SStep.WAITING_FOR_EOF_ACK)
    elif cfg["closure"]:
        ctx.prop("closure_waits_for_finished", rig.h.step == SStep.WAITING_FOR_FINISHED)
    else:
        ctx.prop("unacked_done", rig.idle)


def h_large_file_flag(ctx):
    """file sizes around 2**32: the large-file flag is set exactly when the size needs 64 bits, in the Metadata
    PDU and in the File Data PDUs, and the Metadata PDU serialises"""
    w = World(ctx)
    ids = Ids(2, 2)
    mode = ctx.pick("mode", [ACK, UNACK])
    S = ctx.int("S", 2**32 - 2, 2**32 + 2)
    rig = SrcRig(w, ids, mode=mode, closure=False, seg_len=1024, max_packet_len=2048)
    rig.fs.add_source_file("/src/file.bin", S)
    o = rig.put()
    ctx.prop("put_accepted", o.exc is None and o.ret is True, lambda: {"sig": rigs.exc_name(o.exc)})
    o1, o2 = rig.sm(), rig.sm()
    ctx.prop("no_exception", o1.exc is None and o2.exc is None,
             lambda: {"sig": rigs.exc_sig(o1.exc or o2.exc)})
    ctx.prop("metadata_first", o1.kinds() == ["MD"] and o2.kinds() == ["FD"], lambda: {"sig": str(o1.kinds() + o2.kinds())})
    md, fd = o1.pdus[0], o2.pdus[0]
    need_large = bool(S > 2**32 - 1)
    want = LargeFileFlag.LARGE if need_large else LargeFileFlag.NORMAL
    ctx.covered("large" if need_large else "normal")
    ctx.prop("large_file_flag_iff_needed", md.file_flag == want and fd.file_flag == want,
             lambda: {"sig": f"file flag {md.file_flag!r}/{fd.file_flag!r} for a file that "
                             f"{'needs' if need_large else 'does not need'} 64-bit sizes"})
    ctx.prop("md_file_size", md.file_size == S)
    ctx.prop("md_parsable", parsable(w, md), lambda: {"sig": "Metadata PDU of a file around 2**32 bytes does not serialise"})


def h_ack_of_finished(ctx, id_w, seq_w):
    """the ACK(Finished) the source emits respects the maximum packet length and the header rules"""
    w = World(ctx)
    ids = Ids(id_w, seq_w)
    rig, cfg = setup(ctx, w, ids, 1, modes=(ACK,), cktypes=[ChecksumType.CRC_32])
    rig.put()
    for _ in range(6):
        o = rig.sm()
        if "EOF" in o.kinds():
            break
    conf = copy.copy(rig.h.pdu_conf)
    # the peer may encode its own PDU headers differently (same values): the source's PDUs must not follow it
    peer = ctx.pick("peer", ["same", "other_crc", "other_widths"])
    if peer == "other_crc":
        conf.crc_flag = CrcFlag.NO_CRC if cfg["crc"] else CrcFlag.WITH_CRC
    elif peer == "other_widths":
        iw = 8 if id_w != 8 else 2
        sw = 4 if seq_w != 4 else 2
        conf.source_entity_id = UnsignedByteField(conf.source_entity_id.value, iw)
        conf.dest_entity_id = UnsignedByteField(conf.dest_entity_id.value, iw)
        conf.transaction_seq_num = UnsignedByteField(conf.transaction_seq_num.value, sw)
    o = rig.sm(w.wire(rigs.ack(conf, rigs.DirectiveType.EOF_PDU)))
    ctx.prop("eof_ack_accepted", o.exc is None, lambda: {"sig": rigs.exc_name(o.exc)})
    cond = ctx.pick("fin_cond", [ConditionCode.NO_ERROR, ConditionCode.FILE_CHECKSUM_FAILURE])
    o = rig.sm(w.wire(rigs.finished(conf, cond)))
    ctx.prop("finished_accepted", o.exc is None, lambda: {"sig": rigs.exc_name(o.exc)})
    ctx.prop("ack_of_finished_emitted", o.kinds() == ["ACK"], lambda: {"sig": str(o.kinds())})
    a = o.pdus[0]
    ctx.prop("ack_packet_len", a.packet_len <= cfg["P"])
    ctx.prop("ack_direction", a.direction == Direction.TOWARDS_RECEIVER)
    ctx.prop("ack_acks_finished", a.directive_code_of_acked_pdu == rigs.DirectiveType.FINISHED_PDU
             and a.condition_code_of_acked_pdu == cond)
    ctx.prop("ack_mode_crc", a.transmission_mode == ACK
             and a.crc_flag == (CrcFlag.WITH_CRC if cfg["crc"] else CrcFlag.NO_CRC))
    ctx.prop("ack_ids", a.source_entity_id.value == ids.src.value and a.dest_entity_id.value == ids.dst.value
             and a.source_entity_id.byte_len == ids.id_w and a.dest_entity_id.byte_len == ids.id_w)
    ctx.prop("ack_seq", a.transaction_seq_num.value == rig.h.pdu_conf.transaction_seq_num.value
             and a.transaction_seq_num.byte_len == seq_w)
    ctx.prop("ack_parsable", parsable(w, a))


WIDTHS = {"quick": [(2, 2), (1, 1), (8, 4)],
          "thorough": [(i, s) for i in (1, 2, 4, 8) for s in (1, 2, 4)]}
MSEG = {"quick": 3, "thorough": 8}


def plan(tier):
    specs = []
    for (iw, sw) in WIDTHS[tier]:
        m = MSEG[tier] if (iw, sw) == (2, 2) else min(MSEG[tier], 3)
        specs.append(Spec(f"src-stream/M={m}/w{iw}.{sw}", "vf.harness.c07:harness",
                          {"M": m, "id_w": iw, "seq_w": sw}, twin_share=0.25,
                          obligations=[f"segments={k}" for k in range(0, m + 1)]))
        if (iw, sw) == (2, 2):
            specs.append(Spec("src-large-file-flag/sizes-around-2**32", "vf.harness.c07:h_large_file_flag", {},
                              twin_share=1.0, obligations=["large", "normal"]))
            specs.append(Spec("src-stream/source-file-grows/M=2/w2.2", "vf.harness.c07:harness",
                              {"M": 2, "id_w": 2, "seq_w": 2, "grows": True}, twin_share=0.25,
                              obligations=["source_file_grew"]))
        specs.append(Spec(f"src-ack-of-finished/w{iw}.{sw}", "vf.harness.c07:h_ack_of_finished",
                          {"id_w": iw, "seq_w": sw}, twin_share=0.25))
    return specs


BOUNDS = {
    "quick": "file size S symbolic with S <= M*segment length, M = 3 segments; max_file_segment_len None or symbolic 1..65535; max_packet_len symbolic up to 65535 (large enough for the fixed-size EOF PDU); modes x closure x CRC flag x 4 checksum types; id/seq widths (2,2),(1,1),(8,4)",
    "thorough": "as quick with M = 8 for widths (2,2), M = 3 for the other 11 width pairs",
}
OUTSIDE = ("files needing more than M File Data PDUs; large-file (64-bit) PDUs; TLV options in the put request; "
           "'serialises to a parsable PDU' is checked on the concrete representative of each sampled path only")
FUNCTIONS = ["SourceHandler.put_request", "SourceHandler.state_machine", "_transaction_start", "_prepare_pdu_conf",
             "_calculate_max_file_seg_len", "_prepare_metadata_pdu", "_prepare_progressing_file_data_pdu",
             "_prepare_file_data_pdu", "_prepare_eof_pdu", "_checksum_calculation", "_handle_wait_for_finish",
             "_prepare_finished_ack_packet", "spacepackets FileDataPdu/EofPdu/MetadataPdu length arithmetic"]
EXPLANATION = "File content is abstract (payload = region of the source file); checksums are abstract tokens Hs(type, n)."
ASSUMPTIONS = ["max_packet_len admits the EOF PDU and a 1-byte File Data PDU of the id widths in use, and is at most 65535",
               "the in-memory filestore returns the file's bytes for reads inside the file (its contract)",
               "no inbound PDUs, no timer expiry during the stream"]
MANIFEST = {
    "technique": "bounded symbolic execution (z3) of the real SourceHandler with symbolic file size, segment length and maximum packet length",
    "design_ref": "DESIGN.md 7.7",
    "level_text": "The real put_request/state_machine code is executed with file size, configured segment length and maximum packet length as solver variables (mode, closure, CRC flag, checksum type and id widths forked over their domains); on every feasible path with at most M File Data PDUs z3 shows Metadata-first, exact ascending tiling of [0,S) with the file's bytes, segment and packet length bounds, one File Data PDU per call, EOF size/checksum and header consistency. Counterexamples are replayed with plain ints, real bytes and pack()/unpack().",
    "level_note": "Trusted: z3, symex proxies and stubs (a quarter of the passing paths and all failing paths are re-run concretely with real bytes, crcmod checksums and serialisation), spacepackets. Bound: M segments (3 quick / 8 thorough).",
}
