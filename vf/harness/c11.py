"""C11 -- transactions are isolated from earlier transactions and other handler instances."""
from __future__ import annotations

from spacepackets.cfdp import ChecksumType, ConditionCode, FaultHandlerCode

from vf import hdst, hsrc, rigs, symex
from vf.explore import Spec
from vf.hdst import DstScenario, describe
from vf.rigs import ACK, UNACK, Ids, pdu_kind
from vf.symex import sand
from vf.world import SymBytes, World, sym_len


def flat_eq(a, b):
    """structural equality of observation values; symbolic leaves are compared by the solver"""
    if isinstance(a, (list, tuple)) and isinstance(b, (list, tuple)):
        if len(a) != len(b):
            return False
        return sand(True, *[flat_eq(x, y) for x, y in zip(a, b)])
    if isinstance(a, SymBytes) or isinstance(b, SymBytes):
        if isinstance(a, SymBytes) and isinstance(b, SymBytes):
            return sand(a.src == b.src, a.start == b.start, a.n == b.n)
        return False
    r = a == b
    return r


def obs_view(o, with_fs=True):
    ind = []
    for e in o.ind:
        if e[0] == "finished":
            ind.append((e[0], int(e[2]), int(e[3]), int(e[4])))
        elif e[0] == "metadata_recv":
            ind.append((e[0], e[3], e[4], e[5]))
        elif e[0] == "segment_recv":
            ind.append((e[0], e[2], e[3]))
        else:
            ind.append((e[0],))
    faults = [(f[0], int(f[2]), f[3]) for f in o.faults]
    fs = []
    for c in o.fs:
        if c[0] == "write":
            fs.append((c[0], c[1], c[2], sym_len(c[3]) if not isinstance(c[3], int) else c[3]))
        elif c[0] in ("checksum",):
            fs.append((c[0], c[1], c[2]))
        else:
            fs.append(tuple(c[:2]))
    return [rigs.exc_name(o.exc), [describe(p) for p in o.pdus], ind, faults, fs if with_fs else [],
            o.step1.name, o.state1.name]


HIST_ALPHABET = {ACK: ["MD", "FD", "EOF", "EOFC", "ACKFIN", "TICK", "CANCEL"],
                 UNACK: ["MD", "FD", "EOF", "EOFC", "TICK", "CANCEL"]}
T_ALPHABET = {ACK: ["MD", "FD", "EOF", "TICK", "ACKFIN"], UNACK: ["MD", "FD", "EOF", "TICK"]}


HISTORIES = ["completed", "cancel_request_with_gap", "eof_cancel_with_gap", "file_size_fault", "fd_first_cancel",
             "eof_missing_cancel", "busy_with_gap", "busy_waiting_missing"]


def run_history(ctx, h, which, mode):
    """scripted earlier transaction (symbolic offsets/lengths) that leaves residue in every tracker field"""
    def go(o):
        hdst.end_if_other_property(ctx, o)
        for e in o.ind:
            if e[0] == "finished":
                ctx.covered("history_finished:" + ("ok" if int(e[2]) == 0 else "cancelled"))
        if any(f[0] == "abandon" for f in o.faults):
            ctx.covered("history_abandoned")
        return o
    ctx_ = h.ctx
    o1 = ctx_.int("ho1", 1, hdst.OMAX)
    n1 = ctx_.int("hn1", 1, hdst.LMAX)

    def finish():
        for _ in range(3):
            if h.rig.idle:
                return
            go(h.tick0())
            if mode == ACK and not h.rig.idle and h.rig.h.step.name == "WAITING_FOR_FINISHED_ACK":
                go(h.ack_fin())
    if which == "completed":
        ctx_.assume(h.S <= hdst.LMAX)
        go(h.md()); go(h.fd(0, h.S)); go(h.eof()); finish()
    elif which == "cancel_request_with_gap":
        go(h.md()); go(h.fd(o1, n1)); go(h.cancel()); finish()
    elif which == "eof_cancel_with_gap":
        go(h.md()); go(h.fd(o1, n1)); go(h.eof(size=o1, cond=ConditionCode.CANCEL_REQUEST_RECEIVED)); finish()
    elif which == "file_size_fault":
        go(h.md()); go(h.fd(o1, n1)); go(h.eof(size=o1, checksum=h.w.checksum(ChecksumType.CRC_32, o1))); finish()
    elif which == "fd_first_cancel":
        go(h.fd(o1, n1)); go(h.cancel()); finish()
    elif which == "eof_missing_cancel":
        ctx_.assume(h.S >= 1)
        go(h.md()); go(h.eof()); go(h.tick0()); go(h.cancel()); finish()
    elif which == "abandoned_with_queued_pdu":
        # NAK limit 1 with the abandon handler; the repeated EOF arrives in the call in which the NAK
        # timer expiry is detected, so its ACK is queued when the transaction is abandoned
        ctx_.assume(h.S >= 1)
        go(h.md()); go(h.eof()); go(h.tick0())
        h.w.tick(1)
        go(h.eof())
        finish()
    elif which == "busy_with_gap":
        go(h.md()); go(h.fd(o1, n1))
    elif which == "busy_waiting_missing":
        ctx_.assume(h.S >= 1)
        go(h.md()); go(h.eof()); go(h.tick0())
    else:
        raise symex.HarnessError(which)


def h_dest(ctx, N1, N2, mode, variant, abandon=False, lower_p=False, follow_large=False):
    """variant 'history': same handler object after an earlier transaction;
    variant 'sibling': another handler instance is mid-transaction meanwhile"""
    # two files with the same write log must get the same checksum verdict: use the injective
    # checksum abstraction (tokens of independent calls are otherwise unrelated)
    w = World(ctx, injective=True, nonzero_source=True)
    w.witness = ctx.int("x", 0, hdst.OMAX)
    mode = ACK if mode == "ack" else UNACK
    imm = bool(ctx.choice("imm", 2)) if mode == ACK else True
    table = {ConditionCode.FILE_SIZE_ERROR: FaultHandlerCode.ABANDON_TRANSACTION,
             ConditionCode.NAK_LIMIT_REACHED: FaultHandlerCode.ABANDON_TRANSACTION} if abandon else None
    kw = {"immediate_nak": imm, "fault_table": table, "nak_limit": 1 if abandon else 2}
    if follow_large:
        # the follow-up transaction uses large-file PDUs (64-bit offsets: 16 bytes per segment request), the earlier
        # one the normal format; the packet length admits 3 normal but only 1 large request per NAK PDU
        kw["max_packet_len"] = 45
    fresh = DstScenario(ctx, w, mode=mode, cktype=ChecksumType.CRC_32, closure=False, rig_kwargs=kw,
                        large=follow_large)
    used = DstScenario(ctx, w, mode=mode, cktype=ChecksumType.CRC_32, closure=False, rig_kwargs=kw, S=fresh.S,
                       large=follow_large)
    # ---- the other activity: earlier transaction on `used`, or a sibling instance left busy
    other_ids = Ids(2, 2, seq=40)
    if variant == "history":
        hist = DstScenario(ctx, w, mode=mode, cktype=ChecksumType.CRC_32, closure=False, rig=used.rig,
                           ids=other_ids, vp="h")
    else:
        hist = DstScenario(ctx, w, mode=mode, cktype=ChecksumType.CRC_32, closure=False, rig_kwargs=kw,
                           ids=other_ids, vp="h")
    run_history(ctx, hist, N1, mode)
    if variant == "history":
        if not used.rig.idle:
            ctx.end("infeasible")  # the earlier transaction must be over
        if not hist.rig.history or all(c.state1.name == "IDLE" and c.state0.name == "IDLE" for c in hist.rig.history):
            ctx.end("infeasible")  # nothing happened
        ctx.covered("history_ended_idle")
        used.rig.user.ev.clear()
        used.rig.fh.ev.clear()
        # the file of the earlier transaction is not part of the comparison
        for k in list(used.rig.fs.files):
            del used.rig.fs.files[k]
        used.rig.fs.conc.clear()
    else:
        if hist.rig.idle:
            ctx.end("infeasible")  # the sibling must be mid-transaction
        ctx.covered("sibling_busy")
    if lower_p:
        # the operator lowers the remote entity's maximum packet length between the two transactions
        # (one segment request per NAK PDU from now on)
        for r in (fresh.rig, used.rig):
            r.rcfg.max_packet_len = 4 + 2 * 2 + 2 + 1 + 8 + 8
    # ---- the transaction under test, on the fresh and on the used handler
    for i in range(N2):
        a = fresh.step(T_ALPHABET[mode])
        hdst.end_if_other_property(ctx, a)
        b = used.replay_on(fresh.events[-1])
        va, vb = obs_view(a), obs_view(b)
        ctx.prop("same_observable_behaviour", flat_eq(va, vb),
                 lambda: {"sig": f"{variant}: step {i} {fresh.events[-1][0]} differs",
                          "fresh": str(va)[:300], "used": str(vb)[:300]})


def h_src(ctx, T, mode, hist, hist_mode=None, other_file=False, script2=None, hist_wide=False):
    """second transaction on a source handler that already ran one, vs a fresh handler"""
    from vf.harness.c10 import SRC_STATE
    w = World(ctx)
    mode = ACK if mode == "ack" else UNACK
    closure = bool(ctx.choice("closure", 2))
    fresh = hsrc.SrcScenario(ctx, w, mode=mode, closure=closure, M=2)
    used = hsrc.SrcScenario(ctx, w, mode=mode, closure=closure, M=2, S=fresh.S)
    # earlier transaction on `used` (scripted, symbolic file size), must end idle; optionally in
    # the other transmission mode (request-level override) with closure
    hm = None if hist_mode is None else (ACK if hist_mode == "ack" else UNACK)
    hist_kw = {}
    if other_file:
        # the earlier transaction sent another file: unrelated content, its own (symbolic) size
        s0 = ctx.int("S0", 0, 2**20)
        ctx.assume(s0 <= used.M * used.seg)
        used.rig.fs.add_source_file("/src/old.bin", s0, alt=True)
        hist_kw = {"src": "/src/old.bin", "dst": "/dst/old.bin"}
    if hist_wide:
        # the earlier transaction went to a remote entity whose id is wider than the local one
        from spacepackets.util import UnsignedByteField
        if hist_wide == "same_entity":
            # the SAME remote entity, addressed with a wider id field (equal value): longer PDU headers
            hist_kw["dest_id"] = UnsignedByteField(used.ids.dst.value, 8)
        else:
            wide = UnsignedByteField(9, 8)
            used.rig.table.add_config(rigs.remote_cfg(wide, max_packet_len=34, mode=mode, closure=closure))
            hist_kw["dest_id"] = wide
    used.put(mode=hm, closure=None if hm is None else True, **hist_kw)
    o = used.sm()
    hsrc.end_if_other_property(ctx, o)
    used.remember_conf()
    first_seq = used.rig.h.transaction_seq_num.value
    script = {"completed": ["SM", "SM", "SM", "ACKEOF", "FIN", "SM", "SM"],
              "cancelled": ["SM", "CANCEL", "ACKEOF", "FIN", "SM", "SM"],
              "retransmitted": ["SM", "NAK", "SM", "SM", "SM", "ACKEOF", "FIN", "SM", "SM"],
              # ends while a re-transmission is pending (NAK served, then cancelled / abandoned)
              "cancelled_in_retransmission": ["SM", "SM", "SM", "NAK", "CANCEL", "ACKEOF", "FIN", "SM", "SM"],
              "cancelled_in_early_retransmission": ["SM", "NAK", "CANCEL", "ACKEOF", "FIN", "SM", "SM"],
              "abandoned": ["SM", "SM", "SM", "TICK1", "TICK1", "TICK1", "TICK1", "TICK1"]}[hist]
    used.vp = "h"
    for evn in script:
        if used.rig.idle:
            break
        if (hm if hm is not None else mode) == UNACK and evn in ("NAK", "ACKEOF"):
            evn = "SM"
        if evn == "TICK1":
            w.tick(1)
            o = used.sm()
        else:
            o = used.step([evn])
        hsrc.end_if_other_property(ctx, o)
    if not used.rig.idle:
        ctx.end("infeasible")
    ctx.covered("history_ended_idle")
    used.rig.user.ev.clear()
    used.rig.fh.ev.clear()
    if hm is not None:
        w.tick(ctx.int("dt_between", 0, 3))  # time passes between the two transactions
    a = fresh.put()
    b = used.put()
    ctx.prop("same_put_result", a.ret == b.ret and rigs.exc_name(a.exc) == rigs.exc_name(b.exc))
    a, b = fresh.sm(), used.sm()
    fresh.remember_conf()
    used.remember_conf()
    ctx.prop("distinct_sequence_numbers",
             fresh.rig.h.transaction_id is not None and used.rig.h.transaction_id is not None
             and used.rig.h.transaction_seq_num.value == first_seq + 1,
             lambda: {"sig": "second transaction did not get the next sequence number"})
    used.vp = ""
    fresh.n = used.n = 0
    for i in range(T):
        a = fresh.step(script2[i] if script2 else SRC_STATE[mode])
        hsrc.end_if_other_property(ctx, a)
        ev = fresh.events[-1]
        b = used.replay_on(ev)
        va, vb = src_view(a), src_view(b)
        ctx.prop("same_observable_behaviour", flat_eq(va, vb),
                 lambda: {"sig": f"source: step {i} {ev[0]} differs", "fresh": str(va)[:300], "used": str(vb)[:300]})


def src_view(o):
    pd = []
    for p in o.pdus:
        k = pdu_kind(p)
        pd.append(("hdr", p.source_entity_id.byte_len, p.source_entity_id.value, p.dest_entity_id.byte_len,
                   p.dest_entity_id.value, p.transaction_seq_num.byte_len, int(p.crc_flag), int(p.transmission_mode),
                   int(p.file_flag), int(p.direction)))
        if k == "FD":
            pd.append((k, p.offset, p.file_data))
        elif k == "EOF":
            pd.append((k, int(p.condition_code), p.file_size, p.file_checksum))
        elif k == "MD":
            pd.append((k, p.file_size, int(p.checksum_type), bool(p.closure_requested)))
        else:
            pd.append((k,))
    ind = [(e[0],) + ((int(e[2]), int(e[3]), int(e[4])) if e[0] == "finished" else ()) for e in o.ind]
    return [rigs.exc_name(o.exc), pd, ind, [(f[0], int(f[2])) for f in o.faults], o.step1.name, o.ret]


def plan(tier):
    q = tier == "quick"
    n2 = 4 if q else 5
    specs = []
    for mode in ("ack", "unack"):
        for hname in HISTORIES:
            if mode == "unack" and hname in ("fd_first_cancel", "eof_missing_cancel", "busy_waiting_missing"):
                continue
            variant = "sibling" if hname.startswith("busy") else "history"
            n2 = 4 if (q or (mode == "ack" and hname not in ("cancel_request_with_gap", "busy_with_gap", "eof_missing_cancel"))) else 5
            specs.append(Spec(f"dest/{mode}/{variant}/{hname}/N2={n2}", "vf.harness.c11:h_dest",
                              {"N1": hname, "N2": n2, "mode": mode, "variant": variant}, twin_share=0.02,
                              obligations=["history_ended_idle" if variant == "history" else "sibling_busy"]))
    specs.append(Spec("dest/ack/history/abandoned-by-fault/N2=3", "vf.harness.c11:h_dest",
                      {"N1": "file_size_fault", "N2": 3, "mode": "ack", "variant": "history", "abandon": True},
                      twin_share=0.02, obligations=["history_abandoned"]))
    specs.append(Spec("dest/ack/history/mib-changed-after-deferred-nak/N2=4", "vf.harness.c11:h_dest",
                      {"N1": "eof_missing_cancel", "N2": 4, "mode": "ack", "variant": "history", "lower_p": True},
                      twin_share=0.02, obligations=["history_ended_idle"]))
    specs.append(Spec("dest/ack/history/large-file-pdus-after-normal-ones/N2=4", "vf.harness.c11:h_dest",
                      {"N1": "eof_missing_cancel", "N2": 4, "mode": "ack", "variant": "history", "follow_large": True},
                      twin_share=0.02, obligations=["history_ended_idle"]))
    specs.append(Spec("dest/ack/history/abandoned-with-queued-pdu/N2=4", "vf.harness.c11:h_dest",
                      {"N1": "abandoned_with_queued_pdu", "N2": 4, "mode": "ack", "variant": "history", "abandon": True},
                      twin_share=0.02, obligations=["history_abandoned"]))
    for mode, hmode in (("ack", "unack"), ("unack", "ack")):
        specs.append(Spec(f"src/{mode}/second-transaction-after-completed-{hmode}-with-closure/T={2 if q else 3}",
                          "vf.harness.c11:h_src",
                          {"T": 2 if q else 3, "mode": mode, "hist": "completed", "hist_mode": hmode},
                          twin_share=0.05, obligations=["history_ended_idle"]))
    for mode in ("ack", "unack"):
        specs.append(Spec(f"src/{mode}/second-transaction-after-another-file/T=3", "vf.harness.c11:h_src",
                          {"T": 3, "mode": mode, "hist": "completed", "other_file": True,
                           "script2": [["SM"], ["SM"], ["SM", "TICK"]]}, twin_share=0.05,
                          obligations=["history_ended_idle"]))
    specs.append(Spec("src/ack/second-transaction-after-one-to-a-wider-id-remote/T=2", "vf.harness.c11:h_src",
                      {"T": 2, "mode": "ack", "hist": "completed", "hist_wide": True, "script2": [["SM"], ["SM", "TICK"]]},
                      twin_share=0.05, obligations=["history_ended_idle"]))
    specs.append(Spec("src/unack/second-transaction-after-one-with-wider-id-field-to-the-same-remote/T=3",
                      "vf.harness.c11:h_src",
                      {"T": 3, "mode": "unack", "hist": "completed", "hist_wide": "same_entity",
                       "script2": [["SM"], ["SM"], ["SM"]]},
                      twin_share=0.05, obligations=["history_ended_idle"]))
    for hist, script2 in (("cancelled_in_retransmission", [["NAK"], ["SM"], ["SM"]]),
                          ("cancelled_in_early_retransmission", [["SM"], ["SM"], ["SM"], ["NAK"], ["SM"]])):
        # the follow-up NAK arrives in another step than the one the history's NAK was served in
        specs.append(Spec(f"src/ack/second-transaction-after-{hist}/T={len(script2)}", "vf.harness.c11:h_src",
                          {"T": len(script2), "mode": "ack", "hist": hist, "script2": script2}, twin_share=0.05,
                          obligations=["history_ended_idle"]))
    for mode in ("ack", "unack"):
        for hist in ("completed", "cancelled", "retransmitted", "abandoned"):
            if mode == "unack" and hist in ("retransmitted", "abandoned"):
                continue
            specs.append(Spec(f"src/{mode}/second-transaction-after-{hist}/T={2 if q else 3}", "vf.harness.c11:h_src",
                              {"T": 2 if q else 3, "mode": mode, "hist": hist}, twin_share=0.05,
                              obligations=["history_ended_idle"]))
    return specs


BOUNDS = {
    "quick": "receiver: 6 scripted earlier transactions on the same handler (completed, cancelled by request with a gap, cancelled by EOF(cancel) with a gap, file-size fault, File-Data-first then cancel, waiting for missing data then cancel, plus abandoned by fault handler) and 2 sibling instances left mid-transaction, all with symbolic sizes/offsets/lengths; followed by every sequence of N2=4 events over {Metadata, File Data, EOF, tick, ACK(Finished)} run on a fresh handler and on the used/accompanied one; sender: second transaction after completed / cancelled / retransmitted / abandoned first transaction, also after a first transaction in the OTHER transmission mode with closure and 0..3 timer intervals in between, T=2 open events; receiver history also 'abandoned while a PDU is queued'",
    "thorough": "N2=5, T=3",
}
OUTSIDE = "earlier histories other than the scripted ones; more than one earlier transaction; threads (handlers are single-threaded by documentation; 'sibling' = interleaved calls in one thread)"
FUNCTIONS = ["DestHandler._reset_internal", "_DestFieldWrapper.__init__", "_AckedModeParams", "DestHandler._start_transaction", "_common_first_packet_not_metadata_pdu_handler",
             "SourceHandler._reset_internal", "_TransferFieldWrapper.reset", "_SourceFileParams.reset", "SourceHandler.put_request", "_get_next_transfer_seq_num"]
EXPLANATION = "Differential inside one path: the same (symbolic) event sequence is run on a fresh handler and on a used/accompanied handler; observable traces are compared term by term by the solver."
ASSUMPTIONS = ["injective checksum abstraction (two files with the same write log get the same verdict)", "symbolic clock shared by both handlers", "in-memory filestores, one per handler"]
MANIFEST = {
    "technique": "bounded symbolic execution (z3), differential: the same symbolic transaction on a fresh handler vs. a handler with an earlier transaction or a busy sibling instance, traces compared by the solver",
    "design_ref": "DESIGN.md 7.11",
    "level_text": "Inside one explored path a transaction (every event sequence up to N2 with symbolic fields) is executed on a freshly constructed handler and on a handler object that already ran a scripted earlier transaction (six endings incl. abandonment) or while a sibling instance is mid-transaction; PDUs, indications, fault callbacks, filestore operations, step and state after every call must be equal for all inputs (solver query per call). Same for the source handler's second transaction, where the sequence number must be the next one.",
    "level_note": "Trusted: z3, symex proxies/stubs (2-5% of passing and all failing paths re-run concretely). Histories are scripted; bound N2/T on the transaction under test.",
}
