"""C20 -- PDU routing agrees with what each handler accepts (H-RT)."""
from __future__ import annotations

from cfdppy.exceptions import InvalidPduForDestHandler, InvalidPduForSourceHandler
from cfdppy.handler.common import PacketDestination, get_packet_destination
from cfdppy.handler.dest import acknowledge_inactive_eof_pdu
from cfdppy.handler.source import TransactionStep as SStep
from spacepackets.cfdp import ChecksumType, ConditionCode, Direction, PduType
from spacepackets.cfdp.pdu import DirectiveType, TransactionStatus

from vf import rigs
from vf.explore import Spec
from vf.rigs import ACK, UNACK, DestRig, Ids, SrcRig
from vf.world import World

KINDS = ["FD", "MD", "EOF", "PROMPT", "ACK_FIN", "FIN", "NAK", "KA", "ACK_EOF"]
TO_DEST = {"FD", "MD", "EOF", "PROMPT", "ACK_FIN"}
ALL_CONDS = [c for c in ConditionCode if c >= 0]
ALL_STATUSES = list(TransactionStatus)
# routing/admission do not depend on these fields (C20's quantifier does not list them): two values each
CONDS = [ConditionCode.NO_ERROR, ConditionCode.CANCEL_REQUEST_RECEIVED]
STATUSES = [TransactionStatus.ACTIVE, TransactionStatus.TERMINATED]


def build(ctx, w, kind, conf):
    size = ctx.int("size", 0, 2**32 - 1)
    if kind == "FD":
        n = ctx.int("n", 0, 1024)
        return rigs.file_data(conf, ctx.int("off", 0, 2**32 - 1), w.payload(0, n))
    if kind == "MD":
        return rigs.metadata(conf, size, ctx.pick("ck", [ChecksumType.CRC_32, ChecksumType.NULL_CHECKSUM]),
                             bool(ctx.choice("closure", 2)))
    if kind == "EOF":
        return rigs.eof(conf, size, w.checksum(ChecksumType.CRC_32, 0), ctx.pick("cond", CONDS))
    if kind == "PROMPT":
        return rigs.prompt(conf)
    if kind == "ACK_FIN":
        return rigs.ack(conf, DirectiveType.FINISHED_PDU, ctx.pick("cond", CONDS), ctx.pick("st", STATUSES))
    if kind == "ACK_EOF":
        return rigs.ack(conf, DirectiveType.EOF_PDU, ctx.pick("cond", CONDS), ctx.pick("st", STATUSES))
    if kind == "FIN":
        return rigs.finished(conf, ctx.pick("cond", CONDS))
    if kind == "NAK":
        a = ctx.int("a", 0, 4)
        b = ctx.int("b", 0, 4)
        return rigs.nak(conf, 0, size, [(a, b)])
    if kind == "KA":
        return rigs.keep_alive(conf, size)
    raise AssertionError(kind)


def _conf(ctx, ids):
    mode = ctx.pick("mode", [ACK, UNACK])
    crc = bool(ctx.choice("crc", 2))
    large = bool(ctx.choice("large", 2))
    return rigs.pdu_conf(ids, mode, crc=crc, large=large), mode


def h_route(ctx, kind, id_w, seq_w):
    w = World(ctx)
    ids = Ids(id_w, seq_w)
    conf, mode = _conf(ctx, ids)
    pdu = build(ctx, w, kind, conf)
    d = ctx.pick("dir", [Direction.TOWARDS_RECEIVER, Direction.TOWARDS_SENDER])
    rigs.set_direction(pdu, d)
    pdu = w.wire(pdu) if not (kind == "FD" and w.sym) else pdu
    want = PacketDestination.DEST_HANDLER if kind in TO_DEST else PacketDestination.SOURCE_HANDLER
    got = get_packet_destination(pdu)
    ctx.note(kind, int(d), int(mode))
    ctx.prop("routing_table", got == want, lambda: {"sig": f"{kind}->{got}", "kind": kind})


def h_dest_admission(ctx, kind, id_w, seq_w, busy):
    """routed to dest => dest never answers 'invalid PDU for this handler';
    routed to source => dest refuses, and with the right direction flag refuses for that reason"""
    w = World(ctx)
    ids = Ids(id_w, seq_w)
    conf, mode = _conf(ctx, ids)
    rig = DestRig(w, ids)
    if busy:
        o = rig.sm(rigs.metadata(rigs.pdu_conf(ids, mode, crc=conf.crc_flag == 1, large=conf.file_flag == 1),
                                 10))
        if o.exc is not None:
            raise o.exc
    pdu = build(ctx, w, kind, conf)
    d = ctx.pick("dir", [Direction.TOWARDS_RECEIVER, Direction.TOWARDS_SENDER])
    rigs.set_direction(pdu, d)
    pre = (rig.h.state, rig.h.step, rig.h.progress, len(rig.fs.calls))
    o = rig.sm(pdu)
    ctx.note(kind, int(d), int(mode), busy, rigs.exc_name(o.exc))
    if kind in TO_DEST:
        ctx.prop("routed_here_not_refused_as_foreign", not isinstance(o.exc, InvalidPduForDestHandler),
                 lambda: {"sig": f"dest refuses {kind}", "kind": kind})
    else:
        ctx.prop("routed_elsewhere_is_refused",
                 o.exc is not None and type(o.exc).__name__ in rigs.ADMISSION_DEST,
                 lambda: {"sig": f"dest accepts {kind}: {rigs.exc_name(o.exc)}", "kind": kind})
        post = (rig.h.state, rig.h.step, rig.h.progress, len(rig.fs.calls))
        ctx.prop("refusal_changes_nothing", pre == post and not o.pdus)


def _src_in_step(ctx, w, ids, mode, want_step, idle=None):
    rig = SrcRig(w, ids, mode=mode, closure=True, seg_len=8)
    rig.fs.add_source_file("/src/file.bin", 4)
    if idle == "fresh":
        return rig
    if idle == "again":
        # a complete unacknowledged transaction without closure, then idle again
        o = rig.put(mode=UNACK, closure=False)
        for _ in range(6):
            if rig.idle and o.call != ("put",):
                break
            o = rig.sm()
            if o.exc is not None:
                raise o.exc
        if not rig.idle:
            raise AssertionError("source rig did not return to idle")
        return rig
    o = rig.put()
    if o.exc is not None or o.ret is not True:
        raise AssertionError("put request failed in the C20 rig")
    for _ in range(8):
        if rig.h.step == want_step:
            return rig
        o = rig.sm()
        if o.exc is not None:
            raise o.exc
    ctx.end("infeasible")


def h_src_admission(ctx, kind, id_w, seq_w, step):
    w = World(ctx)
    ids = Ids(id_w, seq_w)
    mode = ctx.pick("mode", [ACK, UNACK])
    if step in ("IDLE_FRESH", "IDLE_AGAIN"):
        rig = _src_in_step(ctx, w, ids, mode, None, idle="fresh" if step == "IDLE_FRESH" else "again")
        conf = rigs.pdu_conf(ids, mode)
    else:
        want_step = SStep[step]
        if mode == UNACK and want_step == SStep.WAITING_FOR_EOF_ACK:
            ctx.end("infeasible")
        rig = _src_in_step(ctx, w, ids, mode, want_step)
        # PDU of the running transaction: same ids, sequence number, mode, flags as the handler uses
        conf = rig.h.pdu_conf
    pdu = build(ctx, w, kind, conf)
    d = ctx.pick("dir", [Direction.TOWARDS_RECEIVER, Direction.TOWARDS_SENDER])
    rigs.set_direction(pdu, d)
    pre = (rig.h.state, rig.h.step, rig.h.progress, len(rig.fs.calls))
    o = rig.sm(pdu)
    ctx.note(kind, int(d), int(mode), step, rigs.exc_name(o.exc))
    if kind not in TO_DEST:
        ctx.prop("routed_here_not_refused_as_foreign", not isinstance(o.exc, InvalidPduForSourceHandler),
                 lambda: {"sig": f"source refuses {kind}", "kind": kind})
    else:
        ctx.prop("routed_elsewhere_is_refused",
                 o.exc is not None and type(o.exc).__name__ in rigs.ADMISSION_SRC,
                 lambda: {"sig": f"source does not refuse {kind}: {rigs.exc_name(o.exc)}", "kind": kind})
        post = (rig.h.state, rig.h.step, rig.h.progress, len(rig.fs.calls))
        ctx.prop("refusal_changes_nothing", pre == post and not o.pdus)


def h_inactive_ack(ctx, id_w, seq_w):
    w = World(ctx)
    ids = Ids(id_w, seq_w)
    conf, mode = _conf(ctx, ids)
    cond = ctx.pick("cond", ALL_CONDS)
    st = ctx.pick("st", ALL_STATUSES)
    e = rigs.eof(conf, ctx.int("size", 0, 2**32 - 1), w.checksum(ChecksumType.CRC_32, 0), cond)
    # the EOF's own direction flag may say either (the routing helper sends an EOF to the receiver whatever it says)
    rigs.set_direction(e, ctx.pick("eof_dir", [Direction.TOWARDS_RECEIVER, Direction.TOWARDS_SENDER]))
    e = w.wire(e)
    ctx.note(int(cond), int(st))
    try:
        a = acknowledge_inactive_eof_pdu(e, st)
        # the same EOF PDU object may be delivered (and has to be acknowledged) again
        a2 = acknowledge_inactive_eof_pdu(e, st)
        ctx.prop("second_acknowledgement_equal", a2 == a, lambda: {"sig": "repeated EOF acknowledged differently"})
    except ValueError:
        ctx.prop("active_status_refused", st == TransactionStatus.ACTIVE)
        ctx.covered("active_refused")
        return
    ctx.prop("active_status_refused", st != TransactionStatus.ACTIVE,
             lambda: {"sig": "ACTIVE accepted"})
    a = w.wire(a)
    ctx.prop("is_ack_of_eof", a.directive_type == DirectiveType.ACK_PDU
             and a.directive_code_of_acked_pdu == DirectiveType.EOF_PDU)
    ctx.prop("condition_code_echoed", a.condition_code_of_acked_pdu == cond)
    ctx.prop("status_as_given", a.transaction_status == st)
    ctx.prop("towards_sender", a.direction == Direction.TOWARDS_SENDER)
    ctx.prop("same_transaction", a.source_entity_id == e.source_entity_id
             and a.dest_entity_id == e.dest_entity_id
             and a.transaction_seq_num == e.transaction_seq_num
             and a.transmission_mode == e.transmission_mode and a.crc_flag == e.crc_flag)
    ctx.prop("routes_to_source", get_packet_destination(a) == PacketDestination.SOURCE_HANDLER)


WIDTHS = {"quick": [(2, 2), (1, 1), (8, 4)],
          "thorough": [(i, s) for i in (1, 2, 4, 8) for s in (1, 2, 4)]}
SRC_STEPS = ["SENDING_FILE_DATA", "WAITING_FOR_EOF_ACK", "WAITING_FOR_FINISHED", "IDLE_FRESH", "IDLE_AGAIN"]


def plan(tier):
    specs = []
    for (iw, sw) in WIDTHS[tier]:
        for kind in KINDS:
            specs.append(Spec(f"route/{kind}/w{iw}.{sw}", "vf.harness.c20:h_route",
                              {"kind": kind, "id_w": iw, "seq_w": sw}, twin_share=1.0))
            for busy in (False, True):
                specs.append(Spec(f"dest-admit/{kind}/busy={busy}/w{iw}.{sw}",
                                  "vf.harness.c20:h_dest_admission",
                                  {"kind": kind, "id_w": iw, "seq_w": sw, "busy": busy},
                                  twin_share=1.0))
            for st in SRC_STEPS:
                specs.append(Spec(f"src-admit/{kind}/{st}/w{iw}.{sw}", "vf.harness.c20:h_src_admission",
                                  {"kind": kind, "id_w": iw, "seq_w": sw, "step": st}, twin_share=1.0))
        specs.append(Spec(f"inactive-ack/w{iw}.{sw}", "vf.harness.c20:h_inactive_ack",
                          {"id_w": iw, "seq_w": sw}, twin_share=1.0, obligations=["active_refused"]))
    return specs


BOUNDS = {
    "quick": "all 9 PDU kinds (8 classes, ACK split by acknowledged directive) x direction flag x mode x CRC flag x large-file flag x condition code x transaction status; id/seq widths (2,2),(1,1),(8,4); handler states: destination idle / busy after Metadata, source in SENDING_FILE_DATA / WAITING_FOR_EOF_ACK / WAITING_FOR_FINISHED / idle (fresh) / idle again after a transaction; sizes and offsets symbolic in [0, 2^32)",
    "thorough": "as quick with all 12 id/seq width pairs",
}
OUTSIDE = "ACK PDUs acknowledging anything but EOF/Finished cannot be constructed or parsed by spacepackets and are not considered; TLV options"
FUNCTIONS = ["cfdppy.handler.common.get_packet_destination", "cfdppy.handler.dest.DestHandler.state_machine/_check_inserted_packet",
             "cfdppy.handler.source.SourceHandler.state_machine/_check_inserted_packet",
             "cfdppy.handler.dest.acknowledge_inactive_eof_pdu"]
EXPLANATION = "C20's space is finite; enumerated fields are forked by the solver over their whole domain (ctx.pick), numeric fields stay symbolic. Exhaustive within the listed handler states."
ASSUMPTIONS = ["PDUs are well-formed objects of the spacepackets classes; the direction flag is re-assigned after construction because any value can arrive on the wire",
               "the PDU fed to the source handler belongs to the running transaction (ids, sequence number), so only the type check can refuse it"]
MANIFEST = {
    "technique": "bounded symbolic execution (z3-forked enumeration of the finite PDU space, numeric fields symbolic) of the real routing helper and both admission checks",
    "design_ref": "DESIGN.md 7.20",
    "level_text": "The routing helper and both handlers' admission checks are run on every PDU kind x direction flag x mode x CRC flag x large-file flag x condition code x status x id widths, in idle/busy destination states and three source steps; routing table, routing<->admission agreement, unchanged state after refusal and the inactive-EOF acknowledgement helper are asserted on every path. The space is finite and covered completely at the listed handler states; each path is also re-run concretely through pack()/unpack().",
    "level_note": "Trusted: z3, symex proxies (all paths re-run concretely), spacepackets (executed). Handler states other than the seven listed are outside the claim.",
}
