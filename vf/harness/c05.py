"""C05 -- destination file equals the write-model of the accepted File Data PDUs (H-DST)."""
from __future__ import annotations

import z3

from spacepackets.cfdp import ChecksumType, ConditionCode

from vf import hdst, rigs, symex
from vf.explore import Spec
from vf.hdst import DstScenario
from vf.rigs import ACK, UNACK
from vf.symex import SymBool, SymInt, _z, sand
from vf.world import ZERO8, C, World, sym_len

RECEIVING_STEPS = ("RECEIVING_FILE_DATA", "SENDING_EOF_ACK_PDU", "WAITING_FOR_MISSING_DATA",
                   "RECV_FILE_DATA_WITH_CHECK_LIMIT_HANDLING")
MUTATIONS = ("write", "create", "truncate", "delete", "rename", "replace", "mkdir", "rmdir", "rejected")
RESOLVED = "/dst/file.bin"


class Model:
    """reference: what the destination file must contain"""

    def __init__(self):
        self.exists = False
        self.log = []
        self.md_seen = False
        self.cancel_seen = False


def model_byte(log, x):
    val = ZERO8
    for o, d in log:
        oo, n = _z(o), _z(sym_len(d))
        val = z3.If(z3.And(oo <= x, x < oo + n), C(_z(d.src), _z(d.start) + x - oo), val)
    return val


def model_end(log):
    end = z3.IntVal(0)
    for o, d in log:
        n = _z(sym_len(d))
        e = _z(o) + n
        end = z3.If(z3.And(n > 0, e > end), e, end)
    return end


def content_matches(ctx, w, fs, model, x):
    if not w.sym:
        exp = bytearray()
        for o, d in model.log:
            if len(d) > 0:
                if len(exp) < o:
                    exp.extend(bytes(o - len(exp)))
                exp[o:o + len(d)] = d
        return fs.conc_bytes(RESOLVED) == bytes(exp)
    end_fs = _z(fs.file_end(RESOLVED))
    end_m = model_end(model.log)
    same_len = end_fs == end_m
    same_byte = z3.Implies(z3.And(0 <= _z(x), _z(x) < end_m), fs.byte_term(RESOLVED, _z(x)) == model_byte(model.log, _z(x)))
    return SymBool(z3.And(same_len, same_byte))


def harness(ctx, N, mode, shape):
    w = World(ctx)
    mode = ACK if mode == "ack" else UNACK
    disposition = bool(ctx.choice("disposition", 2))
    imm = bool(ctx.choice("imm", 2)) if mode == ACK else True
    dst_name = "/dst" if shape in ("dir", "dir_existing") else RESOLVED
    sc = DstScenario(ctx, w, mode=mode, cktype=ChecksumType.CRC_32, closure=False, dst_name=dst_name,
                     rig_kwargs={"immediate_nak": imm, "disposition": disposition})
    fs = sc.rig.fs
    if shape in ("dir", "dir_existing"):
        fs.add_dir("/dst")
    if shape in ("existing", "dir_existing"):
        fs.add_plain_file(RESOLVED, ctx.int("old_len", 0, 64))
    x = ctx.int("x", 0, hdst.OMAX + hdst.LMAX)
    m = Model()
    alphabet = ["MD", "FD", "EOF", "EOFC", "TICK", "CANCEL"] + (["ACKFIN"] if mode == ACK else [])
    for i in range(N):
        o = sc.step(alphabet)
        hdst.end_if_other_property(ctx, o)
        ev = sc.events[-1]
        inds = [e[0] for e in o.ind]
        # -- every mutation of the filestore names the resolved destination path
        for c in o.fs:
            if c[0] in MUTATIONS:
                ctx.prop("mutation_only_on_destination", c[1] == RESOLVED,
                         lambda: {"sig": f"{c[0]} on {c[1]}"})
        muts = [c for c in o.fs if c[0] in MUTATIONS]
        if "metadata_recv" in inds:
            ctx.covered("metadata_accepted")
            m.md_seen = True
            m.exists = True
            m.log = []
            m.cancel_seen = False
            ctx.prop("file_created_or_truncated_at_metadata",
                     any(c[0] in ("create", "truncate") for c in muts),
                     lambda: {"sig": str([c[0] for c in o.fs])})
        elif not m.md_seen:
            ctx.prop("nothing_touched_before_metadata", len(muts) == 0,
                     lambda: {"sig": str([c[0] for c in muts])})
        if ev[0] in ("EOF",) and ev[1] != 0:
            m.cancel_seen = True
        if ev[0] == "CANCEL":
            m.cancel_seen = True
        segs = [e for e in o.ind if e[0] == "segment_recv"]
        if ev[0] == "FD":
            ctx.prop("at_most_one_segment_indication", len(segs) <= 1)
            if o.exc is None and m.md_seen and o.step0.name in RECEIVING_STEPS and o.tid0 is not None \
                    and o.step1.name in RECEIVING_STEPS and not any(e[0] == "finished" for e in o.ind) and not o.faults:
                # a File Data PDU handed to a handler that is (and stays) receiving this file is accepted (or
                # refused with an exception) - it is not silently discarded
                ctx.prop("file_data_not_silently_dropped", len(segs) == 1,
                         lambda: {"sig": f"File Data PDU delivered in step {o.step0.name} left no trace"})
            if segs:
                ctx.covered("file_data_accepted")
                ctx.prop("accepted_only_after_metadata", m.md_seen)
                m.log.append((ev[1], w.payload(ev[1], ev[2])))
                # a rejected write never happens in this harness, so acceptance implies a write
        else:
            ctx.prop("segment_indication_only_for_file_data", len(segs) == 0)
        dels = [c for c in muts if c[0] == "delete"]
        if dels:
            ctx.covered("deleted")
            fin = [e for e in o.ind if e[0] == "finished"]
            ctx.prop("delete_only_when_cancelled",
                     disposition and len(fin) == 1 and fin[0][2] != ConditionCode.NO_ERROR,
                     lambda: {"sig": "delete without cancelled completion"})
            m.exists = False
        if m.exists and muts:
            ctx.prop("destination_exists", RESOLVED in fs.files)
            ctx.prop("content_equals_write_model", content_matches(ctx, w, fs, m, x),
                     lambda: {"sig": f"after {ev[0]}"})
    if m.exists:
        ctx.prop("destination_exists", RESOLVED in fs.files)
        ctx.prop("content_equals_write_model_at_end", content_matches(ctx, w, fs, m, x))


def plan(tier):
    n = 4 if tier == "quick" else 5
    specs = []
    for mode in ("ack", "unack"):
        for shape in ("file", "dir", "existing", "dir_existing"):
            nn = n if shape == "file" else n - 1
            specs.append(Spec(f"dest-write-model/{mode}/{shape}/N={nn}", "vf.harness.c05:harness",
                              {"N": nn, "mode": mode, "shape": shape}, twin_share=0.05,
                              obligations=["metadata_accepted", "file_data_accepted"]))
    return specs


BOUNDS = {
    "quick": "every sequence of N=4 events (N=3 for directory / pre-existing destination) over {Metadata, File Data (offset<=2^20, length<=4000, arbitrary overlap/duplication/beyond EOF), EOF, EOF(cancel), tick, cancel request, ACK(Finished)}; both modes, immediate/deferred NAK, disposition-on-cancellation on/off; a second transaction on the same handler is reached when the first one completes inside the sequence",
    "thorough": "N=5 (N=4 for directory / pre-existing destination)",
}
OUTSIDE = "sequences longer than N; path strings other than the four shapes (plain file, existing directory, pre-existing file, directory already containing the file); filestore rejections (C14)"
FUNCTIONS = ["DestHandler.state_machine", "_handle_metadata_packet", "_init_vfs_handling", "_handle_fd_pdu", "_lost_segment_handling",
             "_handle_fd_without_previous_metadata", "_notice_of_completion", "cancel_request"]
EXPLANATION = ("Acceptance of a PDU is read off the Metadata-Recv / File-Segment-Recv indications; the destination content is "
               "compared with an independent write model at a symbolic witness byte index and in length.")
ASSUMPTIONS = ["in-memory VirtualFilestore (write at offset, holes read as zero) that never rejects",
               "a File Data PDU counts as accepted iff a File-Segment-Recv indication is issued for it (all indications enabled)"]
MANIFEST = {
    "technique": "bounded symbolic execution (z3) of the real DestHandler over all event sequences of bounded length; content compared with a write model at a symbolic witness index",
    "design_ref": "DESIGN.md 7.5",
    "level_text": "For every event sequence up to length N with symbolic offsets/lengths the real destination handler runs against an in-memory filestore whose files are write logs; z3 shows at an arbitrary witness index that file content and length equal the independent model (accepted File Data applied in arrival order to a file emptied at Metadata), that every filestore mutation names the resolved destination path, that nothing is touched before Metadata and that deletion only happens on cancelled completion with disposition configured.",
    "level_note": "Trusted: z3, symex proxies and the in-memory filestore stub (5% of passing and all failing paths re-run with real bytes). Bound: N events.",
}
