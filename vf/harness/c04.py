"""C04 -- retry limits are honoured exactly; a silent peer cannot hang a transaction."""
from __future__ import annotations

from cfdppy.handler.dest import TransactionStep as DStep
from cfdppy.handler.source import TransactionStep as SStep
from spacepackets.cfdp import ChecksumType, ConditionCode

from vf import hdst, hsrc, rigs, symex
from vf.explore import Spec
from vf.hdst import DstScenario
from vf.rigs import ACK, pdu_kind
from vf.symex import sand
from vf.world import Clock, World

CC = ConditionCode


class Retry:
    """independent model of one timer-driven retry procedure on the symbolic clock"""

    def __init__(self, limit):
        self.limit = limit
        self.t0 = Clock.now
        self.n = 0

    def expired(self):
        return Clock.now - self.t0 >= 1

    def restart(self):
        self.t0 = Clock.now

    def reset(self):
        self.t0 = Clock.now
        self.n = 0


def same_eof(a, b):
    return sand(a.file_size == b.file_size, a.file_checksum == b.file_checksum,
                a.condition_code == b.condition_code)


def h_src_eof(ctx, NMAX):
    w = World(ctx)
    limit = ctx.int("limit", 1, NMAX)
    sc = hsrc.SrcScenario(ctx, w, mode=ACK, closure=bool(ctx.choice("closure", 2)), M=1,
                          rig_kwargs={"ack_limit": limit})
    sc.put()
    o = sc.sm()
    sc.remember_conf()
    eof0 = None
    for _ in range(4):
        o = sc.sm()
        hsrc.end_if_other_property(ctx, o)
        if "EOF" in o.kinds():
            eof0 = [p for p in o.pdus if pdu_kind(p) == "EOF"][0]
            break
    ctx.prop("eof_sent", eof0 is not None and sc.rig.h.step == SStep.WAITING_FOR_EOF_ACK)
    rt = Retry(limit)
    phase = 1
    cur = eof0
    nak_done = False
    for r in range(2 * NMAX + 3):
        what = ctx.pick(f"r{r}", (["TICK", "ACK"] + ([] if (nak_done or r > 2) else ["NAK"])) if phase == 1 else ["TICK"])
        if what == "NAK":
            # a NAK (re-request of the Metadata PDU) is served in between, no time passes: the sender resumes
            # waiting for the EOF ACK where it was - timer and expiry count are not touched
            nak_done = True
            o = sc.nak([(0, 0)])
            hsrc.end_if_other_property(ctx, o)
            o2 = sc.sm()
            hsrc.end_if_other_property(ctx, o2)
            ctx.covered("nak_served_while_waiting")
            ctx.prop("nak_served_without_side_effects",
                     [pdu_kind(p) for p in o.pdus + o2.pdus] == ["MD"] and not o.faults and not o2.faults
                     and sc.rig.h.step == SStep.WAITING_FOR_EOF_ACK,
                     lambda: {"sig": f"NAK while waiting for the EOF ACK: {o.kinds() + o2.kinds()} step {sc.rig.h.step.name}"})
            continue
        if what == "ACK":
            w.tick(ctx.int(f"dta{r}", 0, 2))  # possibly together with a timer expiry
            # the acknowledging entity may already have closed (or never known) the transaction: its ACK
            # carries another transaction status and acknowledges the EOF all the same
            from spacepackets.cfdp.pdu import TransactionStatus
            st = ctx.pick(f"ack_status{r}", [TransactionStatus.ACTIVE, TransactionStatus.TERMINATED,
                                             TransactionStatus.UNDEFINED, TransactionStatus.UNRECOGNIZED])
            o = sc.ack_eof(status=st)
            hsrc.end_if_other_property(ctx, o)
            ctx.covered("peer_resumed")
            ctx.prop("ack_ends_retries", not o.faults and sc.rig.h.step == SStep.WAITING_FOR_FINISHED,
                     lambda: {"sig": "ACK(EOF) did not end the positive ACK procedure"})
            return
        o = sc.tick(f"dt{r}")
        hsrc.end_if_other_property(ctx, o)
        eofs = [p for p in o.pdus if pdu_kind(p) == "EOF"]
        if not rt.expired():
            ctx.prop("nothing_between_expiries", not o.pdus and not o.faults,
                     lambda: {"sig": "EOF re-sent or fault without timer expiry"})
            continue
        rt.n += 1
        if rt.n < limit:
            ctx.covered("eof_resent")
            ctx.prop("resend_on_each_expiry", len(eofs) == 1 and len(o.pdus) == 1 and same_eof(eofs[0], cur),
                     lambda: {"sig": f"phase {phase}: EOF not re-sent on expiry"})
            ctx.prop("no_fault_before_limit", not o.faults,
                     lambda: {"sig": f"phase {phase}: Positive ACK Limit before the limit-th expiry"})
            rt.restart()
            continue
        # the limit-th consecutive expiry
        if phase == 1:
            ctx.covered("limit_fault")
            lf = [f for f in o.faults if f[2] == CC.POSITIVE_ACK_LIMIT_REACHED]
            ctx.prop("limit_fault_exactly_at_limit", len(lf) == 1 and lf[0][0] == "cancel" and len(o.faults) == 1,
                     lambda: {"sig": "no Positive ACK Limit fault at the limit-th expiry"})
            ctx.prop("cancel_eof_sent", len(eofs) == 1 and eofs[0].condition_code == CC.POSITIVE_ACK_LIMIT_REACHED,
                     lambda: {"sig": "no EOF(cancel) after the limit fault"})
            cur = eofs[0]
            phase = 2
            rt.reset()
            continue
        ctx.covered("abandoned")
        ctx.prop("abandoned_when_cancel_exchange_times_out",
                 sc.rig.idle and any(f[0] == "abandon" for f in o.faults) and not o.pdus,
                 lambda: {"sig": "sender not abandoned after the EOF(cancel) exchange timed out"})
        ctx.prop("total_expiries_bounded", True)
        return
    ctx.covered("loop_exhausted")


def h_src_eof_env_fails(ctx, NMAX):
    """silent peer AND a failing environment: after the first EOF the user's filestore can no longer produce
    the checksum (the source file vanished), so every re-generation of the EOF PDU raises out of the call.
    The expiries still count: the transaction must not hang"""
    w = World(ctx)
    limit = ctx.int("limit", 1, NMAX)
    sc = hsrc.SrcScenario(ctx, w, mode=ACK, closure=bool(ctx.choice("closure", 2)), M=1,
                          rig_kwargs={"ack_limit": limit})
    sc.put()
    o = sc.sm()
    sc.remember_conf()
    for _ in range(4):
        o = sc.sm()
        hsrc.end_if_other_property(ctx, o)
        if "EOF" in o.kinds():
            break
    ctx.prop("eof_sent", sc.rig.h.step == SStep.WAITING_FOR_EOF_ACK)
    sc.rig.fs.reject = lambda kind, p: FileNotFoundError if kind == "checksum" else None
    raised = 0
    for r in range(2 * NMAX + 3):
        if sc.rig.idle:
            break
        w.tick(1)
        o = sc.sm()
        if o.exc is not None:
            ctx.prop("only_the_environment_error_surfaces", isinstance(o.exc, FileNotFoundError),
                     lambda: {"sig": rigs.exc_sig(o.exc)})
            raised += 1
    if raised:
        ctx.covered("environment_error_surfaced")
    ctx.prop("silent_peer_cannot_hang_the_transaction", sc.rig.idle,
             lambda: {"sig": f"still {sc.rig.h.step.name} after {2 * NMAX + 3} expiries with limit <= {NMAX} "
                             "(filestore fails while the EOF is re-generated)"})


def _after_limit_cancel_exchange(ctx, sc, limit, NMAX, cond):
    """receiver: Finished(cancel) exchange must time out into abandonment after `limit` more expiries"""
    rt = Retry(limit)
    for r in range(NMAX + 2):
        o = sc.tick(f"dtc{r}")
        hdst.end_if_other_property(ctx, o)
        if not rt.expired():
            ctx.prop("nothing_between_expiries", not o.pdus and not o.faults)
            continue
        rt.n += 1
        fins = [p for p in o.pdus if pdu_kind(p) == "FIN"]
        if rt.n < limit:
            ctx.prop("resend_on_each_expiry", len(fins) == 1 and fins[0].condition_code == cond,
                     lambda: {"sig": "Finished(cancel) not re-sent on expiry"})
            rt.restart()
            continue
        ctx.covered("abandoned")
        ctx.prop("abandoned_when_cancel_exchange_times_out", sc.rig.idle and not o.pdus,
                 lambda: {"sig": "receiver not abandoned after the Finished(cancel) exchange timed out"})
        return
    ctx.covered("loop_exhausted")


def h_dst_fin(ctx, NMAX):
    w = World(ctx)
    limit = ctx.int("limit", 1, NMAX)
    sc = DstScenario(ctx, w, mode=ACK, cktype=ChecksumType.CRC_32, closure=False,
                     rig_kwargs={"ack_limit": limit})
    S = sc.S
    ctx.assume(S <= hdst.LMAX)
    for o in (sc.md(), sc.fd(0, S), sc.eof()):
        hdst.end_if_other_property(ctx, o)
    o = sc.tick0()
    hdst.end_if_other_property(ctx, o)
    fin0 = [p for p in o.pdus if pdu_kind(p) == "FIN"]
    ctx.prop("finished_sent", len(fin0) == 1 and sc.rig.h.step == DStep.WAITING_FOR_FINISHED_ACK,
             lambda: {"sig": str(o.kinds())})
    rt = Retry(limit)
    for r in range(NMAX + 2):
        what = ctx.pick(f"r{r}", ["TICK", "ACK"])
        if what == "ACK":
            w.tick(ctx.int(f"dta{r}", 0, 2))  # possibly together with a timer expiry
            o = sc.ack_fin()
            hdst.end_if_other_property(ctx, o)
            ctx.covered("peer_resumed")
            ctx.prop("ack_ends_retries", not o.faults and sc.rig.idle,
                     lambda: {"sig": "ACK(Finished) did not end the transaction"})
            return
        o = sc.tick(f"dt{r}")
        hdst.end_if_other_property(ctx, o)
        fins = [p for p in o.pdus if pdu_kind(p) == "FIN"]
        if not rt.expired():
            ctx.prop("nothing_between_expiries", not o.pdus and not o.faults,
                     lambda: {"sig": "Finished re-sent or fault without timer expiry"})
            continue
        rt.n += 1
        if rt.n < limit:
            ctx.covered("finished_resent")
            ctx.prop("resend_on_each_expiry", len(fins) == 1 and len(o.pdus) == 1
                     and fins[0].condition_code == fin0[0].condition_code
                     and fins[0].delivery_code == fin0[0].delivery_code,
                     lambda: {"sig": "Finished not re-sent on expiry"})
            ctx.prop("no_fault_before_limit", not o.faults,
                     lambda: {"sig": "Positive ACK Limit before the limit-th expiry"})
            rt.restart()
            continue
        ctx.covered("limit_fault")
        lf = [f for f in o.faults if f[2] == CC.POSITIVE_ACK_LIMIT_REACHED]
        ctx.prop("limit_fault_exactly_at_limit", len(lf) == 1 and lf[0][0] == "cancel",
                 lambda: {"sig": "no Positive ACK Limit fault at the limit-th expiry"})
        ctx.prop("cancel_finished_sent", len(fins) == 1 and fins[0].condition_code == CC.POSITIVE_ACK_LIMIT_REACHED,
                 lambda: {"sig": "no Finished(cancel) after the limit fault"})
        return _after_limit_cancel_exchange(ctx, sc, limit, NMAX, CC.POSITIVE_ACK_LIMIT_REACHED)
    ctx.covered("loop_exhausted")


def h_dst_nak(ctx, NMAX, multi=False, nomd=False, gap_first=False):
    w = World(ctx)
    limit = ctx.int("limit", 1, NMAX)
    L = ctx.int("L", 1, hdst.LMAX)
    kw = {"nak_limit": limit, "ack_limit": 1, "immediate_nak": bool(ctx.choice("imm", 2))}
    if multi:
        # maximum packet length that admits exactly one segment request per NAK PDU
        kw["max_packet_len"] = 4 + 2 * 2 + 2 + 1 + 8 + 8
    sc = DstScenario(ctx, w, mode=ACK, cktype=ChecksumType.CRC_32, closure=False, seg=L, rig_kwargs=kw)
    if multi:
        return _nak_multi(ctx, w, sc, limit, L, NMAX)
    if nomd:
        return _nak_nomd(ctx, w, sc, limit, L, NMAX)
    sc.M = 2
    S = sc.S
    ctx.assume(S <= 2 * L, S > L)  # two segments
    if gap_first:
        # the second segment arrives first (immediate NAK for the gap, if that mode is on), then time passes
        # before the EOF: the limit counts expiries after the first DEFERRED sequence, not since that NAK
        pre = [sc.md(), sc.grid_fd(1)]
        w.tick(ctx.int("dt_gap", 0, 2))
        pre.append(sc.eof())
        ctx.covered("gap_before_eof")
    else:
        pre = [sc.md(), sc.eof()]
    for o in pre:
        hdst.end_if_other_property(ctx, o)
    o = sc.tick0()
    hdst.end_if_other_property(ctx, o)
    naks0 = [p for p in o.pdus if pdu_kind(p) == "NAK"]
    ctx.prop("first_nak_sequence", len(naks0) >= 1 and sc.rig.h.step == DStep.WAITING_FOR_MISSING_DATA,
             lambda: {"sig": str(o.kinds())})
    rt = Retry(limit)
    data_given = False
    first_seg = 0
    if gap_first:
        # segment 1 is there, segment 0 is missing; no further data arrives in this variant
        data_given, first_seg = True, None
    for r in range(2 * NMAX + 2):
        what = ctx.pick(f"r{r}", ["TICK"] if data_given else ["TICK", "DATA"])
        if what == "DATA":
            w.tick(ctx.int(f"dtd{r}", 0, 2))  # possibly together with a timer expiry
            o = sc.grid_fd(0)
            hdst.end_if_other_property(ctx, o)
            data_given = True
            ctx.covered("progress_resets_count")
            ctx.prop("data_alone_raises_no_fault", not o.faults)
            rt.reset()
            continue
        o = sc.tick(f"dt{r}")
        hdst.end_if_other_property(ctx, o)
        naks = [p for p in o.pdus if pdu_kind(p) == "NAK"]
        if not rt.expired():
            ctx.prop("nothing_between_expiries", not o.pdus and not o.faults,
                     lambda: {"sig": "NAK re-issued or fault without timer expiry"})
            continue
        rt.n += 1
        if rt.n < limit:
            ctx.covered("nak_reissued")
            want = (0, L) if gap_first else ((L, S) if data_given else (0, S))
            reqs = [tuple(q) for p in naks for q in p.segment_requests]
            ctx.prop("resend_on_each_expiry", len(naks) >= 1 and len(reqs) == 1
                     and sand(reqs[0][0] == want[0], reqs[0][1] == want[1]),
                     lambda: {"sig": "NAK sequence not re-issued on expiry"})
            ctx.prop("no_fault_before_limit", not o.faults,
                     lambda: {"sig": "NAK Limit Reached before the limit-th expiry without progress"})
            rt.restart()
            continue
        ctx.covered("limit_fault")
        lf = [f for f in o.faults if f[2] == CC.NAK_LIMIT_REACHED]
        ctx.prop("limit_fault_exactly_at_limit", len(lf) == 1 and lf[0][0] == "cancel",
                 lambda: {"sig": "no NAK Limit Reached fault at the limit-th expiry without progress"})
        # default handler: cancelled; the Finished(cancel) exchange (ack limit 1) must end in abandonment
        more = [o] + [sc.tick0() for _ in range(2)]
        fins = [p for c in more for p in c.pdus if pdu_kind(p) == "FIN"]
        ctx.prop("cancel_finished_sent", len(fins) >= 1 and fins[0].condition_code == CC.NAK_LIMIT_REACHED,
                 lambda: {"sig": "no Finished(NAK limit) after the fault"})
        return _after_limit_cancel_exchange(ctx, sc, 1, 2, CC.NAK_LIMIT_REACHED)
    ctx.covered("loop_exhausted")


def _nak_multi(ctx, w, sc, limit, L, NMAX):
    """three segments, the middle one received: two gaps, one NAK PDU each per sequence"""
    sc.M = 3
    S = sc.S
    ctx.assume(S <= 3 * L, S > 2 * L)
    for o in (sc.md(), sc.grid_fd(1), sc.eof()):
        hdst.end_if_other_property(ctx, o)
    o = sc.tick0()
    hdst.end_if_other_property(ctx, o)
    want = [(0, L), (2 * L, S)]

    def full_sequence(pdus):
        naks = [p for p in pdus if pdu_kind(p) == "NAK"]
        reqs = [tuple(q) for p in naks for q in p.segment_requests]
        return len(naks) == 2 and len(reqs) == 2 and sand(reqs[0][0] == want[0][0], reqs[0][1] == want[0][1],
                                                            reqs[1][0] == want[1][0], reqs[1][1] == want[1][1])
    ctx.prop("first_nak_sequence", full_sequence(o.pdus), lambda: {"sig": "first NAK sequence is not two PDUs"})
    ctx.covered("multi_pdu_sequence")
    rt = Retry(limit)
    for r in range(NMAX + 2):
        o = sc.tick(f"dt{r}")
        hdst.end_if_other_property(ctx, o)
        if not rt.expired():
            ctx.prop("nothing_between_expiries", not o.pdus and not o.faults,
                     lambda: {"sig": "NAK re-issued or fault without timer expiry"})
            continue
        rt.n += 1
        if rt.n < limit:
            ctx.covered("nak_reissued")
            ctx.prop("resend_on_each_expiry", full_sequence(o.pdus),
                     lambda: {"sig": "multi-PDU NAK sequence not re-issued completely on expiry"})
            ctx.prop("no_fault_before_limit", not o.faults,
                     lambda: {"sig": "NAK Limit Reached before the limit-th expiry (multi-PDU sequence)"})
            rt.restart()
            continue
        ctx.covered("limit_fault")
        lf = [f for f in o.faults if f[2] == CC.NAK_LIMIT_REACHED]
        ctx.prop("limit_fault_exactly_at_limit", len(lf) == 1 and lf[0][0] == "cancel",
                 lambda: {"sig": "no NAK Limit Reached fault at the limit-th expiry (multi-PDU sequence)"})
        return
    ctx.covered("loop_exhausted")


def _nak_nomd(ctx, w, sc, limit, L, NMAX):
    """the Metadata PDU is lost: the EOF (possibly after one File Data PDU) starts the deferred procedure,
    which has to re-request the Metadata (0,0) and the whole file on every expiry"""
    sc.M = 2
    S = sc.S
    ctx.assume(S <= 2 * L, S > 0)
    pre = [sc.grid_fd(0)] if ctx.choice("fd_first", 2) else []
    pre.append(sc.eof())
    for o in pre:
        hdst.end_if_other_property(ctx, o)
    o = sc.tick0()
    hdst.end_if_other_property(ctx, o)

    def full_sequence(pdus):
        reqs = [tuple(q) for p in pdus if pdu_kind(p) == "NAK" for q in p.segment_requests]
        return len(reqs) == 2 and sand(reqs[0][0] == 0, reqs[0][1] == 0, reqs[1][0] == 0, reqs[1][1] == S)
    ctx.prop("first_nak_sequence", full_sequence(o.pdus) and sc.rig.h.step == DStep.WAITING_FOR_METADATA,
             lambda: {"sig": f"without Metadata: first NAK sequence {o.kinds()} in step {sc.rig.h.step.name}"})
    ctx.covered("metadata_missing")
    rt = Retry(limit)
    for r in range(NMAX + 2):
        o = sc.tick(f"dt{r}")
        hdst.end_if_other_property(ctx, o)
        if not rt.expired():
            ctx.prop("nothing_between_expiries", not o.pdus and not o.faults,
                     lambda: {"sig": "NAK re-issued or fault without timer expiry"})
            continue
        rt.n += 1
        if rt.n < limit:
            ctx.covered("nak_reissued")
            ctx.prop("resend_on_each_expiry", full_sequence(o.pdus),
                     lambda: {"sig": "NAK sequence (Metadata missing) not re-issued on expiry"})
            ctx.prop("no_fault_before_limit", not o.faults,
                     lambda: {"sig": "NAK Limit Reached before the limit-th expiry (Metadata missing)"})
            rt.restart()
            continue
        ctx.covered("limit_fault")
        lf = [f for f in o.faults if f[2] == CC.NAK_LIMIT_REACHED]
        ctx.prop("limit_fault_exactly_at_limit", len(lf) == 1 and lf[0][0] == "cancel",
                 lambda: {"sig": "no NAK Limit Reached fault at the limit-th expiry (Metadata missing)"})
        more = [o] + [sc.tick0() for _ in range(2)]
        fins = [p for c in more for p in c.pdus if pdu_kind(p) == "FIN"]
        ctx.prop("cancel_finished_sent", len(fins) >= 1 and fins[0].condition_code == CC.NAK_LIMIT_REACHED,
                 lambda: {"sig": "no Finished(NAK limit) after the fault (Metadata missing)"})
        return _after_limit_cancel_exchange(ctx, sc, 1, 2, CC.NAK_LIMIT_REACHED)
    ctx.covered("loop_exhausted")


def plan(tier):
    n = 3 if tier == "quick" else 5
    return [
        Spec(f"src/eof-ack-procedure/Nmax={n}", "vf.harness.c04:h_src_eof", {"NMAX": n}, twin_share=0.2,
             obligations=["limit_fault", "abandoned", "peer_resumed", "nak_served_while_waiting"]
             + (["eof_resent"] if n > 1 else [])),
        Spec(f"src/eof-ack-procedure/filestore-fails/Nmax={n}", "vf.harness.c04:h_src_eof_env_fails", {"NMAX": n},
             twin_share=0.5, obligations=["environment_error_surfaced"]),
        Spec(f"dest/finished-ack-procedure/Nmax={n}", "vf.harness.c04:h_dst_fin", {"NMAX": n}, twin_share=0.2,
             obligations=["limit_fault", "peer_resumed", "finished_resent"]),
        Spec(f"dest/nak-procedure/Nmax={n}", "vf.harness.c04:h_dst_nak", {"NMAX": n}, twin_share=0.2,
             obligations=["limit_fault", "nak_reissued", "progress_resets_count"]),
        Spec(f"dest/nak-procedure/two-PDU-sequences/Nmax={n}", "vf.harness.c04:h_dst_nak",
             {"NMAX": n, "multi": True}, twin_share=0.2,
             obligations=["limit_fault", "nak_reissued", "multi_pdu_sequence"]),
        Spec(f"dest/nak-procedure/gap-before-eof/Nmax={n}", "vf.harness.c04:h_dst_nak",
             {"NMAX": n, "gap_first": True}, twin_share=0.2, obligations=["limit_fault", "gap_before_eof"]),
        Spec(f"dest/nak-procedure/metadata-missing/Nmax={n}", "vf.harness.c04:h_dst_nak",
             {"NMAX": n, "nomd": True}, twin_share=0.2,
             obligations=["limit_fault", "nak_reissued", "metadata_missing"]),
    ]


BOUNDS = {
    "quick": "limit symbolic in [1,3]; clock advance per call symbolic 0..2 intervals; sender EOF procedure (incl. EOF(cancel) phase and abandonment, ACK arriving at any round and with any transaction status; and with a filestore that fails whenever the EOF is re-generated: the transaction still ends), receiver Finished procedure (incl. Finished(cancel) phase and abandonment, ACK at any round), receiver NAK procedure on a two-segment file and, with a maximum packet length forcing one request per NAK PDU, on a three-segment file with two gaps (two NAK PDUs per sequence), and with the Metadata PDU lost (EOF first or after one File Data PDU; the sequence re-requests (0,0) and the whole file) (progress at any round resets the count; after the limit fault the Finished(cancel) exchange with limit 1 must end in abandonment)",
    "thorough": "limit symbolic in [1,5]",
}
OUTSIDE = "limits above Nmax; the two waits the documentation lists as unimplemented inactivity handling; check-limit timers (C13); handler codes other than the defaults (C14)"
FUNCTIONS = ["SourceHandler._handle_waiting_for_ack", "SourceHandler._handle_positive_ack_procedures", "SourceHandler._declare_fault", "SourceHandler._notice_of_cancellation",
             "DestHandler._handle_waiting_for_finished_ack", "DestHandler._handle_positive_ack_procedures", "DestHandler._deferred_lost_segment_handling",
             "DestHandler._reset_nak_activity_parameters", "DestHandler._declare_fault", "DestHandler._notice_of_cancellation", "DestHandler._abandon_transaction"]
EXPLANATION = "The expiry model of the harness (start instant + consecutive-expiry counter on the symbolic clock) is independent of the handlers' timers; re-sends, faults and abandonment must coincide with it exactly."
ASSUMPTIONS = ["symbolic clock: advances only between API calls; every timer interval = 1 unit", "default fault handlers", "in-memory filestore"]
MANIFEST = {
    "technique": "bounded symbolic execution (z3) of the real retry procedures with the limit and the clock as solver variables",
    "design_ref": "DESIGN.md 7.4",
    "level_text": "For each timer-driven retry procedure the limit N is symbolic in [1,Nmax] and the clock symbolic; on all feasible paths the oracle (an independent expiry counter) requires: nothing between expiries, exactly one re-send on each of the first N-1 consecutive expiries, the limit fault exactly at the N-th, the cancel PDU afterwards, the same count for the cancel exchange and then abandonment with the handler idle; an ACK or arriving data at any round ends or resets the procedure.",
    "level_note": "Trusted: z3, symex proxies/stubs (20% of passing and all failing paths re-run with the real Countdown on a patched clock). Bound: Nmax.",
}
