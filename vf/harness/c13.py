"""C13 -- unacknowledged transfers tolerate EOF overtaking file data up to the check limit."""
from __future__ import annotations

from cfdppy.mib import EntityType

from cfdppy.handler.dest import TransactionStep as DStep
from cfdppy.handler.source import TransactionStep as SStep
from spacepackets.cfdp import ChecksumType, ConditionCode
from spacepackets.cfdp.pdu.finished import DeliveryCode, FileStatus

from vf import hdst, hsrc, rigs, symex
from vf.explore import Spec
from vf.harness.c01 import identical, is_success
from vf.hdst import DstScenario
from vf.rigs import UNACK, pdu_kind
from vf.world import Clock, World


def h_dest(ctx, M, NMAX, ck="crc32", hiccup=False):
    cktype = ChecksumType.CRC_32 if ck == "crc32" else ChecksumType.CRC_32C
    w = World(ctx, injective=True, nonzero_source=True)
    x = ctx.int("x", 0, hdst.OMAX)
    w.witness = x
    closure = bool(ctx.choice("closure", 2))
    limit = ctx.int("limit", 1, NMAX)
    L = ctx.int("L", 1, hdst.LMAX)
    sc = DstScenario(ctx, w, mode=UNACK, cktype=cktype, closure=closure, seg=L,
                     rig_kwargs={"check_limit": limit})
    sc.M = M
    S = sc.S
    ctx.assume(S <= M * L, S > (M - 1) * L)  # exactly M segments
    fs = sc.rig.fs
    # the provider gives the two roles different intervals: the receiver's own interval (1 unit) counts
    w.timer.intervals = {EntityType.SENDING: 3, EntityType.RECEIVING: 1}
    hic = {"n": 0, "used": False}
    if hiccup:
        # the user's filestore fails once (transient I/O error) while the file is re-verified
        def rej(kind, p):
            if kind != "checksum" or hic["used"]:
                return None
            hic["n"] += 1
            if ctx.choice(f"hic{hic['n']}", 2):
                hic["used"] = True
                ctx.covered("filestore_hiccup")
                return OSError
            return None
        fs.reject = rej
    o = sc.md()
    hdst.end_if_other_property(ctx, o)
    ctx.prop("metadata_accepted", o.exc is None, lambda: {"sig": rigs.exc_name(o.exc)})
    # each segment: 0 = before the EOF, 1 = late, 2 = never
    fate = [ctx.choice(f"fate{k}", 3) for k in range(M)]
    have = set()
    for k in range(M):
        if fate[k] == 0:
            o = sc.grid_fd(k)
            hdst.end_if_other_property(ctx, o)
            have.add(k)
    late = [k for k in range(M) if fate[k] == 1]
    complete = len(have) == M
    # time may pass between the Metadata / file data and the EOF: the check timer starts at the EOF
    w.tick(ctx.int("dt_before_eof", 0, 3))
    o = sc.eof()
    hdst.end_if_other_property(ctx, o)
    fin = [e for e in o.ind if e[0] == "finished"]
    if complete:
        ctx.covered("eof_completes")
        ctx.prop("complete_file_finishes_at_eof", len(fin) == 1 and is_success(fin[0][2], fin[0][3], fin[0][4]),
                 lambda: {"sig": "no success at EOF although all data was there"})
        ctx.prop("identical_at_success", identical(w, fs, S, x))
        return
    ctx.prop("incomplete_file_does_not_finish_at_eof", len(fin) == 0 and not sc.rig.idle,
             lambda: {"sig": "transaction finished at EOF although data was missing"})
    ctx.prop("no_limit_fault_at_eof", not any(f[2] == ConditionCode.CHECK_LIMIT_REACHED for f in o.faults))
    t_start = Clock.now
    expiries = 0
    for r in range(NMAX + len(late) + 1):
        # (the call after a filestore failure is a packet-less poll: it deals with the pending expiry)
        opts = ["TICK"] + (["LATE"] if late and not hic.get("pending") else [])
        what = ctx.pick(f"r{r}", opts)
        if what == "LATE":
            k = late.pop(0)
            # the late PDU may be handed over in the very call in which the check timer has expired: it is
            # received first, then the timer is looked at
            dtl = ctx.int(f"dtl{r}", 0, 2)
            w.tick(dtl)
            o = sc.grid_fd(k)
            if not (hiccup and isinstance(o.exc, OSError)):
                hdst.end_if_other_property(ctx, o)
            have.add(k)
            complete = len(have) == M
            if not (Clock.now - t_start >= 1):
                ctx.prop("late_data_alone_changes_nothing_visible",
                         not any(e[0] == "finished" for e in o.ind) and not o.faults,
                         lambda: {"sig": "completion or fault outside a check-timer expiry"})
                continue
            ctx.covered("late_data_with_expiry")
        else:
            o = None
        if o is None:
            o = sc.tick(f"dt{r}")
        if hiccup and isinstance(o.exc, OSError):
            # the filestore's error surfaces from this call; the expiry has not been dealt with: it is
            # neither counted nor lost (the timer is still expired at the next call)
            ctx.prop("hiccup_call_decides_nothing",
                     not o.faults and not any(e[0] == "finished" for e in o.ind) and not o.pdus,
                     lambda: {"sig": "fault / completion in the call in which the filestore failed"})
            hic["pending"] = True
            continue
        hic["pending"] = False
        hdst.end_if_other_property(ctx, o)
        fin = [e for e in o.ind if e[0] == "finished"]
        limit_faults = [f for f in o.faults if f[2] == ConditionCode.CHECK_LIMIT_REACHED]
        expired = Clock.now - t_start >= 1
        if not expired:
            ctx.prop("nothing_happens_before_expiry", len(fin) == 0 and len(limit_faults) == 0 and not o.pdus,
                     lambda: {"sig": "completion or fault before the check timer expired"})
            continue
        expiries += 1
        ctx.covered(f"expiry{expiries}")
        if complete:
            ctx.covered("late_completion")
            ctx.prop("late_data_completes_at_expiry",
                     len(fin) == 1 and is_success(fin[0][2], fin[0][3], fin[0][4]) and not limit_faults,
                     lambda: {"sig": "all data present at expiry but no successful completion"})
            ctx.prop("identical_at_success", identical(w, fs, S, x))
            if closure:
                ctx.prop("finished_pdu_success", [pdu_kind(p) for p in o.pdus] == ["FIN"]
                         and is_success(o.pdus[0].condition_code, o.pdus[0].delivery_code, o.pdus[0].file_status))
            ctx.prop("idle_after_completion", sc.rig.idle)
            return
        if expiries == limit:
            ctx.covered("limit_reached")
            ctx.prop("check_limit_fault_exactly_at_limit", len(limit_faults) == 1 and limit_faults[0][0] == "cancel",
                     lambda: {"sig": f"no Check Limit Reached fault at the limit-th expiry"})
            ctx.prop("finishes_incomplete",
                     len(fin) == 1 and fin[0][2] == ConditionCode.CHECK_LIMIT_REACHED
                     and fin[0][3] == DeliveryCode.DATA_INCOMPLETE,
                     lambda: {"sig": "limit reached but not finished with incomplete data"})
            if closure:
                ctx.prop("finished_pdu_incomplete", [pdu_kind(p) for p in o.pdus] == ["FIN"]
                         and o.pdus[0].condition_code == ConditionCode.CHECK_LIMIT_REACHED
                         and o.pdus[0].delivery_code == DeliveryCode.DATA_INCOMPLETE)
            ctx.prop("idle_after_limit", sc.rig.idle)
            return
        ctx.prop("no_fault_before_limit", len(limit_faults) == 0 and len(fin) == 0,
                 lambda: {"sig": f"Check Limit Reached before the limit-th expiry"})
        t_start = Clock.now
    # loop exhausted without reaching the limit: only possible when some ticks did not expire
    ctx.covered("loop_exhausted")


def h_sender(ctx):
    """closure requested, no Finished PDU before the check timer expires => cancel with Check Limit Reached"""
    w = World(ctx)
    # closure may be requested by the remote entity's configuration or by the put request (overriding it)
    how = ctx.pick("closure_from", ["mib", "request_over_mib_false", "request_and_mib"])
    sc = hsrc.SrcScenario(ctx, w, mode=UNACK, closure=how != "request_over_mib_false", M=2)
    w.timer.intervals = {EntityType.SENDING: 1, EntityType.RECEIVING: 3}
    sc.put(closure=None if how == "mib" else True)
    o = sc.sm()
    sc.remember_conf()
    for _ in range(4):
        if sc.rig.h.step == SStep.WAITING_FOR_FINISHED:
            break
        o = sc.sm()
        hsrc.end_if_other_property(ctx, o)
    ctx.prop("waiting_for_finished", sc.rig.h.step == SStep.WAITING_FOR_FINISHED, lambda: {"sig": str(sc.rig.h.step)})
    t_start = Clock.now
    for r in range(3):
        what = ctx.pick(f"r{r}", ["TICK", "FIN"])
        if what == "FIN":
            o = sc.fin()
            hsrc.end_if_other_property(ctx, o)
            fin = [e for e in o.ind if e[0] == "finished"]
            ctx.prop("finished_pdu_completes", len(fin) == 1 and is_success(fin[0][2], fin[0][3], fin[0][4])
                     and sc.rig.idle and not o.faults)
            ctx.covered("finished_in_time")
            return
        o = sc.tick(f"dt{r}")
        hsrc.end_if_other_property(ctx, o)
        expired = Clock.now - t_start >= 1
        faults = [f for f in o.faults if f[2] == ConditionCode.CHECK_LIMIT_REACHED]
        if not expired:
            ctx.prop("nothing_before_expiry", not o.faults and not o.pdus and not o.ind)
            continue
        ctx.covered("sender_check_timer_expired")
        ctx.prop("check_limit_fault_at_expiry", len(faults) == 1 and faults[0][0] == "cancel",
                 lambda: {"sig": "no Check Limit Reached at sender check-timer expiry"})
        eofs = [p for p in o.pdus if pdu_kind(p) == "EOF"]
        ctx.prop("cancel_eof_sent", len(eofs) == 1 and eofs[0].condition_code == ConditionCode.CHECK_LIMIT_REACHED,
                 lambda: {"sig": "no EOF(Check Limit Reached) after expiry"})
        return


def plan(tier):
    q = tier == "quick"
    specs = []
    combos = [(1, 4), (2, 4), (3, 2)] if q else [(1, 6), (2, 6), (3, 5), (4, 3)]
    for m, nmax in combos:
        specs.append(Spec(f"dest/check-limit/M={m}/Nmax={nmax}", "vf.harness.c13:h_dest",
                          {"M": m, "NMAX": nmax}, twin_share=0.1,
                          obligations=["limit_reached", "late_completion", "eof_completes"]))
    specs.append(Spec("dest/check-limit/filestore-hiccup/M=1/Nmax=3", "vf.harness.c13:h_dest",
                      {"M": 1, "NMAX": 3, "hiccup": True}, twin_share=0.1,
                      obligations=["limit_reached", "late_completion", "filestore_hiccup"]))
    if not q:
        specs.append(Spec("dest/check-limit/crc32c/M=2/Nmax=3", "vf.harness.c13:h_dest",
                          {"M": 2, "NMAX": 3, "ck": "crc32c"}, twin_share=0.1))
    specs.append(Spec("sender/closure-check-timer", "vf.harness.c13:h_sender", {}, twin_share=0.5,
                      obligations=["sender_check_timer_expired", "finished_in_time"]))
    return specs


BOUNDS = {
    "quick": "unacknowledged mode, closure on/off, CRC-32; file of exactly M=1..3 grid segments (S, L symbolic); every segment independently before the EOF / late / never; 0..3 intervals pass before the EOF; check limit symbolic in [1,4] (M<=2) / [1,2] (M=3); after the EOF every interleaving of late segments and ticks (clock advance 0..3 intervals each) until the limit; sender: closure, up to 3 events of tick/Finished",
    "thorough": "M up to 4, check limit up to 6, CRC-32C as well",
}
OUTSIDE = "check limits above Nmax, more than M segments, corrupted late data (C01), acknowledged mode (C04)"
FUNCTIONS = ["DestHandler._handle_eof_pdu", "_handle_no_error_eof", "_checksum_verify", "_start_check_limit_handling", "_check_limit_handling",
             "_file_transfer_complete_transition", "_declare_fault", "_notice_of_cancellation", "SourceHandler._handle_wait_for_finish", "SourceHandler._handle_eof_sent"]
EXPLANATION = "The check-timer expiry model of the harness is independent (own start instant and counter on the symbolic clock); completion and fault must coincide with it exactly."
ASSUMPTIONS = ["source content is non-zero at the instantiated points, so that a missing segment (a hole reading as zeros) is distinguishable; a file whose missing part is all zeros is legitimately complete", "symbolic clock: advances between API calls only, timer interval = 1 unit", "abstract injective checksum as in C01", "default fault handlers (checksum failure ignored)"]
MANIFEST = {
    "technique": "bounded symbolic execution (z3) of the real DestHandler/SourceHandler with symbolic check limit, symbolic clock and all placements of late segments",
    "design_ref": "DESIGN.md 7.13",
    "level_text": "With the check limit a solver variable in [1,Nmax] and the clock symbolic, every placement of each segment (before EOF / late / never) and every interleaving of late data with timer ticks is executed on the real receiver; z3 shows no completion at EOF while data is missing, nothing visible between expiries, successful completion with identical file at the first expiry at which all data is present, and Check Limit Reached exactly at the limit-th expiry otherwise; for the sender with closure, Check Limit Reached + EOF(cancel) exactly at check-timer expiry.",
    "level_note": "Trusted: z3, symex proxies/stubs (10% of passing and all failing paths re-run with the real Countdown on a patched clock and real CRCs). Bounds: Nmax, M.",
}
