"""C08 -- retransmissions deliver exactly the requested data and nothing else (H-SRC)."""
from __future__ import annotations

from cfdppy.exceptions import InvalidNakPdu
from cfdppy.handler.source import TransactionStep as SStep
from spacepackets.cfdp import ChecksumType
from spacepackets.cfdp.pdu import DirectiveType

from vf import rigs, symex
from vf.explore import Spec
from vf.harness import c07
from vf.rigs import ACK, Ids, pdu_kind
from vf.symex import sand, snot, sor
from vf.world import World, sym_len

WHEN = ["file_data", "eof_ack", "finished"]


def put_options():
    """a put request carrying every kind of Metadata option"""
    from cfdppy.mib import FaultHandlerCode
    from spacepackets.cfdp import (ConditionCode, FaultHandlerOverrideTlv, FileStoreRequestTlv, FlowLabelTlv,
                                   MessageToUserTlv)
    from spacepackets.cfdp.tlv import FilestoreActionCode
    return dict(fs_requests=[FileStoreRequestTlv(FilestoreActionCode.CREATE_FILE_SNM, "/dst/x")],
                overrides=[FaultHandlerOverrideTlv(ConditionCode.FILE_CHECKSUM_FAILURE, FaultHandlerCode.IGNORE_ERROR)],
                flow_label=FlowLabelTlv(b"fl"), msgs=[MessageToUserTlv(b"hello")])


def _drive_to(ctx, rig, cfg, when, k_fd, M, options=False):
    """run the sender until the chosen point; returns the calls so far"""
    calls = []
    o = rig.put(**(put_options() if options else {}))
    if o.exc is not None or o.ret is not True:
        raise o.exc or AssertionError("put refused")
    if when == "file_data":
        # Metadata call + k_fd File Data calls
        for _ in range(1 + k_fd):
            o = rig.sm()
            calls.append(o)
            if o.exc is not None:
                raise o.exc
        nfd = sum(c.kinds().count("FD") for c in calls)
        if nfd != k_fd or any("EOF" in c.kinds() for c in calls):
            ctx.end("infeasible")  # file has fewer segments than k_fd on this path
        return calls
    for _ in range(M + 4):
        o = rig.sm()
        calls.append(o)
        if o.exc is not None:
            raise o.exc
        if "EOF" in o.kinds():
            break
    if when == "finished":
        o = rig.sm(rig.w.wire(rigs.ack(rig.h.pdu_conf, DirectiveType.EOF_PDU)))
        if o.exc is not None:
            raise o.exc
        if rig.h.step != SStep.WAITING_FOR_FINISHED:
            raise symex.HarnessError("source not waiting for Finished after the EOF ACK")
    return calls


def harness(ctx, M, R, when, k_fd=0, second_nak=False, options=False):
    w = World(ctx)
    ids = Ids(2, 2)
    rig, cfg = c07.setup(ctx, w, ids, M, modes=(ACK,), cktypes=[ChecksumType.CRC_32], fixed_closure=False)
    S, seg = cfg["S"], cfg["seg"]
    calls = _drive_to(ctx, rig, cfg, when, k_fd, M, options)
    progress = rig.h.progress
    step_before = rig.h.step
    md0 = calls[0].pdus[0]
    naks = 2 if second_nak else 1
    for which in range(naks):
        reqs = []
        for i in range(R):
            a = ctx.int(f"a{which}_{i}", 0, 2**21)
            b = ctx.int(f"b{which}_{i}", 0, 2**21)
            ctx.assume(b - a <= M * seg)  # bounds the chunking loop (DESIGN 3.2)
            reqs.append((a, b))
        ctx.note("nak", when, k_fd, reqs, "progress", progress)
        nak = rigs.nak(rig.h.pdu_conf, 0, progress, reqs)
        o = rig.sm(w.wire(nak))

        def valid(r):
            a, b = r
            return sor(sand(a == 0, b == 0), sand(a <= b, b <= progress))

        all_valid = sand(*[valid(r) for r in reqs])
        # PDUs of the original stream that fall into the same call (the EOF when the NAK arrives
        # right after the last File Data PDU) are not retransmissions: hand them to the stream oracle
        emitted = list(o.pdus)
        carried = []
        while emitted and pdu_kind(emitted[0]) == "EOF":
            carried.append(emitted.pop(0))
        while emitted and pdu_kind(emitted[-1]) == "EOF":
            carried.append(emitted.pop())
        if carried:
            ctx.covered("eof_in_nak_call")
            fake = rigs.Obs()
            fake.exc, fake.pdus, fake.call = None, carried, ("carried",)
            calls.append(fake)
            ctx.prop("carried_eof_only_when_data_complete", o.progress0 == S)
            step_before = SStep.WAITING_FOR_EOF_ACK
        if o.exc is not None:
            ctx.covered("nak_rejected")
            ctx.prop("only_invalid_naks_are_rejected", snot(all_valid),
                     lambda: {"sig": rigs.exc_sig(o.exc)})
            ctx.prop("rejection_is_invalid_nak", isinstance(o.exc, InvalidNakPdu),
                     lambda: {"sig": rigs.exc_sig(o.exc)})
            # the property only demands that nothing outside the file is emitted
            for p in emitted:
                if pdu_kind(p) == "FD":
                    n = sym_len(p.file_data)
                    ctx.prop("rejected_nak_emits_only_file_content",
                             sand(p.offset + n <= S, c07.genuine(w, p.file_data, p.offset)),
                             lambda: {"sig": "data outside the file before InvalidNakPdu"})
                else:
                    ctx.prop("rejected_nak_emits_only_file_content", pdu_kind(p) == "MD",
                             lambda: {"sig": str([pdu_kind(q) for q in emitted])})
            ctx.prop("rejection_keeps_progress", o.progress1 == o.progress0)
            o2 = rig.sm()
            ctx.prop("resume_no_exception", o2.exc is None, lambda: {"sig": rigs.exc_sig(o2.exc)})
            if when == "file_data" and not carried:
                calls.append(o2)
            else:
                ctx.prop("resume_emits_nothing_new", len(o2.pdus) == 0, lambda: {"sig": str(o2.kinds())})
            # the resumed stream may have moved on: a following NAK is judged against the state it meets
            progress = rig.h.progress
            step_before = rig.h.step
            if "EOF" in o2.kinds() or carried:
                when = "eof_ack"
            continue
        ctx.prop("invalid_request_is_rejected", all_valid,
                 lambda: {"sig": "request beyond progress or inverted accepted",
                          "emitted": [pdu_kind(q) for q in emitted]})
        # emitted PDUs: per request, in order
        idx = 0
        for (a, b) in reqs:
            if a == 0 and b == 0:
                ctx.covered("metadata_rerequested")
                ctx.prop("metadata_resent", idx < len(emitted) and pdu_kind(emitted[idx]) == "MD",
                         lambda: {"sig": str(o.kinds())})
                m = emitted[idx]
                ctx.prop("metadata_is_original",
                         sand(m.file_size == md0.file_size, m.source_file_name == md0.source_file_name,
                              m.dest_file_name == md0.dest_file_name,
                              m.checksum_type == md0.checksum_type,
                              bool(m.closure_requested) == bool(md0.closure_requested),
                              m.transaction_seq_num.value == md0.transaction_seq_num.value))
                ctx.prop("metadata_options_are_original",
                         [bytes(t.pack()) for t in (m.options or [])] == [bytes(t.pack()) for t in (md0.options or [])],
                         lambda: {"sig": f"re-sent Metadata PDU carries {len(m.options or [])} options, "
                                         f"the original {len(md0.options or [])}"})
                idx += 1
                continue
            pos = a
            while True:
                if pos == b:
                    break
                ctx.prop("request_fully_served", idx < len(emitted) and pdu_kind(emitted[idx]) == "FD",
                         lambda: {"sig": str(o.kinds())})
                fd = emitted[idx]
                n = sym_len(fd.file_data)
                ctx.prop("retx_offset", fd.offset == pos)
                ctx.prop("retx_nonempty", n > 0)
                ctx.prop("retx_within_segment_len", n <= seg)
                ctx.prop("retx_within_request", pos + n <= b)
                ctx.prop("retx_inside_file", fd.offset + n <= S)
                ctx.prop("retx_payload_is_file_content", c07.genuine(w, fd.file_data, fd.offset))
                ctx.prop("retx_packet_len", fd.packet_len <= cfg["P"])
                pos = pos + n
                idx += 1
                ctx.covered("data_retransmitted")
        ctx.prop("nothing_else_emitted", idx == len(emitted),
                 lambda: {"sig": str([pdu_kind(q) for q in emitted[idx:]])})
        # the handler must take up again where it was
        o2 = rig.sm()
        ctx.prop("resume_no_exception", o2.exc is None, lambda: {"sig": rigs.exc_sig(o2.exc)})
        if when == "file_data" and not carried:
            calls.append(o2)
        else:
            ctx.prop("resume_emits_nothing_new", len(o2.pdus) == 0, lambda: {"sig": str(o2.kinds())})
            ctx.prop("resume_same_step", rig.h.step == step_before, lambda: {"sig": str(rig.h.step)})
        ctx.prop("progress_untouched", o2.progress0 == progress)
        if carried:
            when = "eof_ack"
        progress = rig.h.progress
        if rig.h.step != step_before and when != "file_data":
            break
    if when == "file_data":
        for _ in range(M + 4):
            if any("EOF" in c.kinds() for c in calls):
                break
            o = rig.sm()
            calls.append(o)
            if o.exc is not None:
                break
        c07.stream_oracle(ctx, w, rig, cfg, calls)


def h_two_steps(ctx, M):
    """NAK #1 while sending file data, the stream runs on to the EOF, NAK #2 while awaiting the EOF ACK
    and NAK #3 while awaiting Finished: each time the handler must resume where it was"""
    w = World(ctx)
    ids = Ids(2, 2)
    rig, cfg = c07.setup(ctx, w, ids, M, modes=(ACK,), cktypes=[ChecksumType.CRC_32], fixed_closure=False)
    S, seg = cfg["S"], cfg["seg"]
    calls = _drive_to(ctx, rig, cfg, "file_data", 1, M)
    a = ctx.int("a1", 0, 2**21)
    b = ctx.int("b1", 0, 2**21)
    ctx.assume(a < b, b <= rig.h.progress, b - a <= M * seg)
    ctx.assume(rig.h.progress < S)  # file data is still being sent, so the EOF cannot fall into this call
    o = rig.sm(w.wire(rigs.nak(rig.h.pdu_conf, 0, rig.h.progress, [(a, b)])))
    ctx.prop("first_nak_served", o.exc is None and all(pdu_kind(p) == "FD" for p in o.pdus),
             lambda: {"sig": f"{rigs.exc_name(o.exc)} {o.kinds()}"})
    for _ in range(M + 4):
        o = rig.sm()
        calls.append(o)
        if o.exc is not None or "EOF" in o.kinds():
            break
    c07.stream_oracle(ctx, w, rig, cfg, calls)
    ctx.prop("awaiting_eof_ack", rig.h.step == SStep.WAITING_FOR_EOF_ACK, lambda: {"sig": str(rig.h.step)})
    for which, want_step in (("eof_ack", SStep.WAITING_FOR_EOF_ACK), ("finished", SStep.WAITING_FOR_FINISHED)):
        if which == "finished":
            o = rig.sm(w.wire(rigs.ack(rig.h.pdu_conf, DirectiveType.EOF_PDU)))
            ctx.prop("eof_ack_accepted", o.exc is None and rig.h.step == want_step,
                     lambda: {"sig": f"after the second NAK the EOF ACK leads to {rig.h.step}"})
        a = ctx.int(f"a_{which}", 0, 2**21)
        b = ctx.int(f"b_{which}", 0, 2**21)
        ctx.assume(a < b, b <= S, b - a <= seg)
        o = rig.sm(w.wire(rigs.nak(rig.h.pdu_conf, 0, S, [(a, b)])))
        ctx.prop("later_nak_served_with_file_data_only", o.exc is None and o.kinds() == ["FD"],
                 lambda: {"sig": f"{which}: {rigs.exc_name(o.exc)} {o.kinds()}"})
        o2 = rig.sm()
        ctx.prop("resume_emits_nothing_new", o2.exc is None and len(o2.pdus) == 0,
                 lambda: {"sig": f"{which}: after the retransmission the source emitted {o2.kinds()}"})
        ctx.prop("resume_same_step", rig.h.step == want_step,
                 lambda: {"sig": f"{which}: resumed in {rig.h.step.name}"})
        ctx.covered(f"nak_in_{which}")


def plan(tier):
    specs = []
    if tier == "quick":
        M, Rs = 3, [1, 2]
    else:
        M, Rs = 4, [1, 2, 3]
    for R in Rs:
        for k in range(0, M + 1):
            mm = M if R < 3 else 3
            if k > mm:
                continue
            specs.append(Spec(f"nak/file_data/after{k}fd/R={R}/M={mm}", "vf.harness.c08:harness",
                              {"M": mm, "R": R, "when": "file_data", "k_fd": k}, twin_share=0.1))
        for when in ("eof_ack", "finished"):
            mm = M if R < 3 else 3
            specs.append(Spec(f"nak/{when}/R={R}/M={mm}", "vf.harness.c08:harness",
                              {"M": mm, "R": R, "when": when}, twin_share=0.1,
                              obligations=["nak_rejected", "metadata_rerequested", "data_retransmitted"]))
    # a NAK while file data is being sent and a second one after the EOF (two different steps)
    specs.append(Spec("two-naks/file_data-then-eof_ack/R=1/M=3", "vf.harness.c08:h_two_steps", {"M": 3},
                      twin_share=0.1))
    # two NAKs of two requests each (the first may be refused half-way: nothing of it may linger)
    specs.append(Spec("two-naks/R=2/eof_ack/M=1", "vf.harness.c08:harness",
                      {"M": 1, "R": 2, "when": "eof_ack", "second_nak": True}, twin_share=0.05,
                      obligations=["nak_rejected", "data_retransmitted"]))
    # put request with every kind of Metadata option; two NAKs (the Metadata PDU is rebuilt twice)
    for when in ("eof_ack", "finished"):
        specs.append(Spec(f"two-naks/with-options/{when}/R=1/M=2", "vf.harness.c08:harness",
                          {"M": 2, "R": 1, "when": when, "second_nak": True, "options": True}, twin_share=0.1,
                          obligations=["metadata_rerequested"]))
    if tier == "thorough":
        for when in WHEN:
            specs.append(Spec(f"two-naks/{when}/R=1/M=3", "vf.harness.c08:harness",
                              {"M": 3, "R": 1, "when": when, "k_fd": 1, "second_nak": True},
                              twin_share=0.1))
    return specs


BOUNDS = {
    "quick": "acknowledged mode, id widths (2,2), CRC-32; file of at most M=3 segments (S, segment length, max packet length symbolic); one NAK with R=1..2 fully symbolic requests (a,b) in [0,2^21], b-a <= M*segment length, delivered after k=0..M File Data PDUs, while awaiting the EOF ACK, or while awaiting Finished",
    "thorough": "M=4 (R=1,2), M=3 (R=3), plus two consecutive NAKs (R=1, M=3)",
}
OUTSIDE = "more than R requests per NAK, requested ranges longer than M segments, more than two NAKs, unacknowledged mode (NAKs are refused there, C10/C20)"
FUNCTIONS = ["SourceHandler.state_machine", "SourceHandler.__handle_retransmission", "_handle_segment_req",
             "_prepare_file_data_pdu", "_prepare_metadata_pdu", "_sending_file_data_fsm", "_handle_waiting_for_ack",
             "_handle_wait_for_finish", "_fsm_advancement_after_packets_were_sent"]
EXPLANATION = "Requests are unconstrained symbolic pairs; validity (inverted / beyond the data sent so far) is decided by the solver on each path."
ASSUMPTIONS = c07.ASSUMPTIONS[:2] + ["b - a <= M * segment length for every request (bounds the chunking loop)",
                                     "no timer expiry during the exchange"]
MANIFEST = {
    "technique": "bounded symbolic execution (z3) of the real SourceHandler with fully symbolic NAK segment requests at every waiting step",
    "design_ref": "DESIGN.md 7.8",
    "level_text": "A NAK PDU with up to R fully symbolic segment requests is delivered to the real source handler after any number of File Data PDUs, while awaiting the EOF ACK and while awaiting Finished; on all feasible paths z3 shows: valid requests are served by File Data PDUs tiling exactly [a,b) with file content within the segment length, (0,0) by the original Metadata PDU, nothing else is emitted; any inverted or beyond-progress request rejects the whole NAK with InvalidNakPdu without emission or state change; afterwards the original stream continues unchanged (C07 oracle).",
    "level_note": "Trusted: z3, symex proxies/stubs (failing paths and a tenth of passing paths re-run concretely with real bytes and serialisation). Bounds: M segments, R requests.",
}
