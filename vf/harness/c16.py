"""C16 -- all file access goes through the user-supplied virtual filestore."""
from __future__ import annotations

import os
import sys

from spacepackets.cfdp import ChecksumType

from vf import hsrc, hsys, rigs, symex
from vf.explore import Spec
from vf.harness import c02
from vf.rigs import ACK, UNACK
from vf.world import World

# ---- host access monitor: audit hook (open, os.* mutations) + wrapped os.stat/os.lstat
_MON = {"on": False, "hits": []}
_VIRTUAL = ("/src", "/dst")


def _is_virtual(p):
    try:
        s = os.fspath(p)
    except TypeError:
        return False
    if isinstance(s, bytes):
        s = s.decode(errors="replace")
    return s.startswith(_VIRTUAL)


def _audit(event, args):
    if not _MON["on"]:
        return
    if event in ("open", "os.remove", "os.rename", "os.mkdir", "os.rmdir", "os.truncate", "os.listdir",
                 "os.scandir", "shutil.rmtree", "os.chmod", "os.utime"):
        if args and _is_virtual(args[0]):
            _MON["hits"].append((event, os.fspath(args[0])))


sys.addaudithook(_audit)
_real_stat, _real_lstat = os.stat, os.lstat


def _stat(path, *a, **k):
    if _MON["on"] and _is_virtual(path):
        _MON["hits"].append(("os.stat", os.fspath(path)))
    return _real_stat(path, *a, **k)


def _lstat(path, *a, **k):
    if _MON["on"] and _is_virtual(path):
        _MON["hits"].append(("os.lstat", os.fspath(path)))
    return _real_lstat(path, *a, **k)


os.stat, os.lstat = _stat, _lstat
_real_getcwd = os.getcwd


def _getcwd():
    # the working directory of the host process is host state: a handler that consults it (e.g. through
    # Path.absolute() / resolve()) derives file names from the host
    if _MON["on"]:
        f = sys._getframe(1)
        while f is not None:
            if f.f_globals.get("__name__", "").startswith("cfdppy"):
                _MON["hits"].append(("os.getcwd", f.f_globals["__name__"]))
                break
            f = f.f_back
    return _real_getcwd()


os.getcwd = _getcwd
_real_truncate = os.truncate


def _truncate(path, length):
    # the length may be a symbolic integer: record the access before the C function converts its arguments
    if _MON["on"] and _is_virtual(path):
        _MON["hits"].append(("os.truncate", os.fspath(path)))
        raise FileNotFoundError(2, "No such file or directory (virtual path)", os.fspath(path))
    return _real_truncate(path, length)


os.truncate = _truncate


class Monitor:
    def __enter__(self):
        _MON["hits"] = []
        _MON["on"] = True
        return self

    def __exit__(self, *a):
        _MON["on"] = False
        return False


def verdict(ctx, w, what):
    hits = list(w.host_access) + list(_MON["hits"])
    ctx.prop("no_host_file_access", not hits,
             lambda: {"sig": f"host access {sorted({h[0] for h in hits})}", "first": str(hits[0]), "scenario": what})


def h_transfer(ctx, M, K):
    w = World(ctx, injective=True, nonzero_source=True)
    x = ctx.int("x", 0, 2**16)
    w.witness = x
    with Monitor():
        sysm, cfg = c02.setup(ctx, w, M, 2, 2, K=K, cktypes=[ChecksumType.CRC_32, ChecksumType.MODULAR],
                              limits=K + 1, fixed={"crc": False, "use_L": False})
        o = sysm.start()
        done = sysm.run(14 + 10 * K + 2 * M)
    if sysm.exceptions:
        name = type(sysm.exceptions[0][1].exc).__name__
        if name == "HostAccess" or w.host_access:
            verdict(ctx, w, "transfer")
            ctx.prop("no_host_file_access", False, lambda: {"sig": f"host access attempted: {name}"})
        if name in ("SourceFileDoesNotExist", "FileNotFoundError"):
            # the handler looked for the file on the host instead of asking the filestore
            ctx.prop("no_host_file_access", False, lambda: {"sig": f"handler fails without host file: {name}"})
        ctx.end("other", f"C10:{rigs.exc_sig(sysm.exceptions[0][1].exc)}")
    ctx.covered("transfer_done" if done else "transfer_not_done")
    verdict(ctx, w, "transfer")
    dfin = sysm.dst.user.of("finished")
    if done and dfin and int(dfin[0][2]) == 0 and int(dfin[0][3]) == 0:
        ctx.covered("in_memory_success")
        ctx.prop("in_memory_transfer_identical", sysm.identical(x),
                 lambda: {"sig": "in-memory transfer result differs from the source"})


def h_relative_names(ctx):
    """relative file names: the filestores are asked about exactly the names the user gave"""
    w = World(ctx, injective=True, nonzero_source=True)
    x = ctx.int("x", 0, 2**16)
    w.witness = x
    mode = ctx.pick("mode", [ACK, UNACK])
    # plain relative names, and names with a ".." component (interpreting those is the filestore's business)
    names = ctx.pick("names", [("outbox/file.bin", "inbox/copy.bin"), ("outbox/../data/file.bin", "in/../inbox/copy.bin")])
    with Monitor():
        sysm = hsys.System(ctx, w, mode=mode, closure=bool(ctx.choice("closure", 2)), S=ctx.int("S", 0, 64),
                           seg_len=32, max_packet_len=64, src_name=names[0], dst_name=names[1])
        o = sysm.start()
        done = sysm.run(14)
    if sysm.exceptions:
        name = type(sysm.exceptions[0][1].exc).__name__
        if name == "HostAccess" or w.host_access:
            verdict(ctx, w, "relative names")
            ctx.prop("no_host_file_access", False, lambda: {"sig": f"host access attempted: {name}"})
        if name in ("SourceFileDoesNotExist", "FileNotFoundError"):
            ctx.prop("no_host_file_access", False, lambda: {"sig": f"handler fails without host file: {name}"})
        ctx.end("other", f"C10:{rigs.exc_sig(sysm.exceptions[0][1].exc)}")
    verdict(ctx, w, "relative names")
    asked = {c[1] for fs in (sysm.src.fs, sysm.dst.fs) for c in fs.calls if len(c) > 1 and isinstance(c[1], str)}
    ctx.prop("filestore_asked_only_about_named_paths", asked <= set(names),
             lambda: {"sig": f"filestore asked about {sorted(asked - set(names))}"})
    ctx.prop("relative_transfer_completes", done, lambda: {"sig": "transfer with relative names did not complete"})
    ctx.prop("in_memory_transfer_identical", sysm.identical(x, names[1]),
             lambda: {"sig": "file is not under the requested (relative) name"})
    ctx.covered("relative_names")


def h_retransmit_and_cancel(ctx, mode):
    """retransmission on NAK and the cancel-time prefix checksum also go through the filestore"""
    w = World(ctx)
    mode = ACK if mode == "ack" else UNACK
    with Monitor():
        sc = hsrc.SrcScenario(ctx, w, mode=mode, closure=False, M=3)
        o = sc.put()
        ctx.prop("put_accepted", o.exc is None and o.ret is True, lambda: {"sig": rigs.exc_name(o.exc)})
        o = sc.sm()
        sc.remember_conf()
        calls = [o, sc.sm(), sc.sm()]
        if mode == ACK:
            a = ctx.int("a", 0, 2**16)
            b = ctx.int("b", 0, 2**16)
            ctx.assume(a <= b, b <= sc.rig.h.progress, b - a <= 2 * sc.seg)
            calls.append(sc.nak([(a, b)]))
            calls.append(sc.sm())
        calls.append(sc.cancel())
        calls.append(sc.sm())
    for c in calls:
        if c.exc is not None:
            name = type(c.exc).__name__
            if name in ("SourceFileDoesNotExist", "FileNotFoundError"):
                ctx.prop("no_host_file_access", False, lambda: {"sig": f"handler fails without host file: {name}"})
            ctx.end("other", f"C10:{rigs.exc_sig(c.exc)}")
    ops = [c[0] for c in sc.rig.fs.calls]
    ctx.covered("cancel_checksum" if "checksum" in ops else "no_checksum")
    sent_data = any(rigs.pdu_kind(p) == "FD" for c in calls for p in c.pdus)
    if sent_data:
        ctx.covered("file_data_sent")
        ctx.prop("reads_go_through_filestore", any(o_ in ("read", "read_opened") for o_ in ops),
                 lambda: {"sig": "file data was produced without a filestore read"})
    verdict(ctx, w, "retransmit+cancel")


def h_dest_open(ctx, N, mode):
    """receiver alone under the monitor: every event sequence incl. cancel with disposition"""
    from vf import hdst
    w = World(ctx)
    m = ACK if mode == "ack" else UNACK
    with Monitor():
        sc = hdst.DstScenario(ctx, w, mode=m, cktype=ChecksumType.CRC_32, closure=bool(ctx.choice("closure", 2)),
                              rig_kwargs={"disposition": bool(ctx.choice("disposition", 2))},
                              large=bool(ctx.choice("large_file_pdus", 2)))
        alphabet = ["MD", "FD", "EOF", "EOFC", "TICK", "CANCEL"]
        for i in range(N):
            o = sc.step(alphabet)
            if o.exc is not None and type(o.exc).__name__ in ("FileNotFoundError", "HostAccess", "NotADirectoryError"):
                verdict(ctx, w, "receiver sequence")
                ctx.prop("no_host_file_access", False,
                         lambda: {"sig": f"receiver fails without host file: {type(o.exc).__name__}"})
            hdst.end_if_other_property(ctx, o)
            if any(c[0] == "delete" for c in o.fs):
                ctx.covered("file_discarded")
    verdict(ctx, w, "receiver sequence")


# ---- second sentence of the property: the same transfer on the native filestore (concrete validation)
class NativeRecFs:
    """VirtualFilestore over the real NativeFilestore, paths remapped below a temporary root"""

    def __new__(cls, world, name, root):
        import pathlib

        from cfdppy.filestore import NativeFilestore, VirtualFilestore

        class _Fs(VirtualFilestore):
            def __init__(self):
                self.n = NativeFilestore()
                self.calls = []
                self.files = _Files(self)
                self.reject = None
                self.root = pathlib.Path(root) / name
                self.root.mkdir(parents=True, exist_ok=True)

            def _p(self, p):
                return self.root / str(p).lstrip("/")

            def add_dir(self, p):
                self._p(p).mkdir(parents=True, exist_ok=True)

            def add_source_file(self, p, size):
                self._p(p).parent.mkdir(parents=True, exist_ok=True)
                self._p(p).write_bytes(world.src_bytes(0, size))

            def add_plain_file(self, p, nbytes=0):
                self._p(p).parent.mkdir(parents=True, exist_ok=True)
                self._p(p).write_bytes(b"\xee" * nbytes)

            def conc_bytes(self, p):
                return self._p(p).read_bytes()

            def _rec(self, *c):
                self.calls.append(c)

            def read_data(self, file, offset, read_len=None):
                self._rec("read", str(file)); return self.n.read_data(self._p(file), offset, read_len)

            def read_from_opened_file(self, b, offset, read_len):
                return self.n.read_from_opened_file(b, offset, read_len)

            def is_directory(self, path):
                self._rec("is_directory", str(path)); return self.n.is_directory(self._p(path))

            def filename_from_full_path(self, path):
                return self.n.filename_from_full_path(path)

            def file_exists(self, path):
                self._rec("file_exists", str(path)); return self.n.file_exists(self._p(path))

            def truncate_file(self, file):
                self._rec("truncate", str(file)); return self.n.truncate_file(self._p(file))

            def file_size(self, file):
                self._rec("file_size", str(file)); return self.n.file_size(self._p(file))

            def write_data(self, file, data, offset):
                self._rec("write", str(file), offset, len(data)); return self.n.write_data(self._p(file), data, offset)

            def create_file(self, file):
                self._rec("create", str(file))
                self._p(file).parent.mkdir(parents=True, exist_ok=True)
                return self.n.create_file(self._p(file))

            def delete_file(self, file):
                self._rec("delete", str(file)); return self.n.delete_file(self._p(file))

            def rename_file(self, a, b):
                return self.n.rename_file(self._p(a), self._p(b))

            def replace_file(self, a, b):
                return self.n.replace_file(self._p(a), self._p(b))

            def create_directory(self, d):
                return self.n.create_directory(self._p(d))

            def remove_directory(self, d, recursive=False):
                return self.n.remove_directory(self._p(d), recursive)

            def list_directory(self, d, t, recursive=False):
                return self.n.list_directory(self._p(d), self._p(t), recursive)

            def calculate_checksum(self, checksum_type, file_path, size_to_verify, segment_len=4096):
                self._rec("checksum", str(file_path), size_to_verify)
                return self.n.calculate_checksum(checksum_type, self._p(file_path), size_to_verify, segment_len)

        class _Files:
            def __init__(self, fs):
                self.fs = fs

            def __contains__(self, p):
                return self.fs._p(p).is_file()

        return _Fs()


class LazyCtx(symex.Ctx):
    """concrete context that invents values for inputs it is asked for (seeded), and remembers them"""

    def __init__(self, rnd, model=None):
        super().__init__("conc", model=dict(model or {}))
        self.rnd = rnd

    def int(self, name, lo=None, hi=None):
        if name not in self.model_in:
            lo_ = 0 if lo is None else lo
            hi_ = lo_ + 48 if hi is None else min(hi, lo_ + 48)
            self.model_in[name] = self.rnd.randint(lo_, hi_)
        return super().int(name, lo, hi)

    def bool(self, name):
        if name not in self.model_in:
            self.model_in[name] = self.rnd.random() < 0.5
        return super().bool(name)


def _one_transfer(ctx, native_root, M, K):
    w = World(ctx)
    if native_root is not None:
        w.fs = lambda name: w.all_fs.append(NativeRecFs(w, name, native_root)) or w.all_fs[-1]
    sysm, cfg = c02.setup(ctx, w, M, 2, 2, K=K, cktypes=[ChecksumType.CRC_32, ChecksumType.MODULAR, ChecksumType.NULL_CHECKSUM],
                          limits=K + 1, fixed={"crc": False})
    sysm.start()
    done = sysm.run(14 + 10 * K + 2 * M)
    view = {
        "done": done, "exceptions": [(a, type(o.exc).__name__) for a, o in sysm.exceptions],
        "trace": [t for t in sysm.trace], "src_ind": [(e[0],) + tuple(int(v) for v in e[2:5]) if e[0] == "finished" else (e[0],) for e in sysm.src.user.ev],
        "dst_ind": [(e[0],) + tuple(int(v) for v in e[2:5]) if e[0] == "finished" else (e[0],) for e in sysm.dst.user.ev],
        "faults": [(f[0], int(f[2])) for f in sysm.src.fh.ev + sysm.dst.fh.ev],
        "dst_ops": [c[0] for c in sysm.dst.fs.calls],
        "file": sysm.dst.fs.conc_bytes("/dst/file.bin").hex() if "/dst/file.bin" in sysm.dst.fs.files else None,
    }
    return view


def native_equivalence(seed, n):
    """the same (seeded) transfers over the in-memory filestore and over NativeFilestore in a temporary
    directory must give the same PDUs, indications, fault callbacks, filestore operations and file"""
    import random
    import shutil
    import tempfile

    from vf.world import apply_shims
    rnd = random.Random(1000 + seed)
    ran, skipped = 0, 0
    for i in range(n):
        M, K = rnd.choice([(1, 0), (2, 0), (3, 0), (1, 1), (2, 1), (2, 2)])
        ctx = LazyCtx(rnd)
        symex.Ctx.cur = ctx
        try:
            try:
                a = _one_transfer(ctx, None, M, K)
            except (symex.HarnessError, symex.PathEnd):
                skipped += 1
                continue
            ctx2 = LazyCtx(rnd, model=ctx.model_in)
            symex.Ctx.cur = ctx2
            root = tempfile.mkdtemp(prefix="vfc16-")
            try:
                b = _one_transfer(ctx2, root, M, K)
            finally:
                shutil.rmtree(root, ignore_errors=True)
        finally:
            symex.Ctx.cur = None
        ran += 1
        if a != b:
            diff = [k for k in a if a[k] != b[k]]
            return {"ok": False, "detail": {"sig": f"native vs in-memory transfer differs in {diff}"},
                    "counterexample": {"model": {k: v for k, v in ctx.model_in.items() if not k.startswith('_')}, "M": M, "K": K,
                                       "memory": str({k: a[k] for k in diff})[:600], "native": str({k: b[k] for k in diff})[:600]}}
    return {"ok": ran >= n // 2, "detail": f"{ran} seeded transfers (M<=3, K<=2, all modes/closure/NAK modes/3 checksum types/4 destination shapes) "
                                             f"identical on the in-memory and the native filestore; {skipped} draws violated a precondition"}


def extra_checks(tier, seed):
    n = 60 if tier == "quick" else 400
    return [("native_filestore_equivalence", lambda: native_equivalence(seed, n))]


def replay_extra(rp):
    print(rp)
    return 1


def plan(tier):
    q = tier == "quick"
    specs = []
    for m, k in ([(2, 0), (1, 1)] if q else [(2, 0), (2, 1), (1, 2)]):
        specs.append(Spec(f"transfer/M={m}/K={k}", "vf.harness.c16:h_transfer", {"M": m, "K": k}, twin_share=0.02,
                          obligations=["transfer_done"]))
    for mode in ("ack", "unack"):
        specs.append(Spec(f"receiver-open/{mode}/N={4 if q else 5}", "vf.harness.c16:h_dest_open",
                          {"N": 4 if q else 5, "mode": mode}, twin_share=0.02, obligations=["file_discarded"]))
    for mode in ("ack", "unack"):
        specs.append(Spec(f"retransmit-and-cancel/{mode}", "vf.harness.c16:h_retransmit_and_cancel", {"mode": mode},
                          twin_share=0.2, obligations=["cancel_checksum"]))
    specs.append(Spec("transfer/relative-names", "vf.harness.c16:h_relative_names", {}, twin_share=0.2,
                      obligations=["relative_names"]))
    return specs


BOUNDS = {
    "quick": "closed-loop transfers of C02/C03 shape over purely in-memory filestores whose paths (/src/..., /dst/...) do not exist on the host: M=2 fault-free (both modes, closure, CRC-32 and modular checksum, NAK modes, three destination shapes) and M=1 with one link fault; sender scenario with NAK retransmission (symbolic request) and cancel request (prefix checksum) in both modes; receiver alone on every sequence of N=4 events incl. cancel request / EOF(cancel) with disposition on cancellation on and off; a fault-free transfer with RELATIVE source and destination names (the filestores must be asked about exactly those names; os.getcwd called from cfdppy code counts as host access)",
    "thorough": "adds M=2/K=1 and M=1/K=2",
}
OUTSIDE = "the sentence 'behaves exactly like the same transfer on the native filestore' is checked by CONCRETE validation only (seeded transfers run on both filestores and compared; not a solver result); host access routes that raise no audit event and bypass os.stat/Path/open"
FUNCTIONS = ["SourceHandler.put_request", "_prepare_file_params", "_prepare_file_data_pdu", "_checksum_calculation", "DestHandler._init_vfs_handling", "_handle_fd_pdu", "_checksum_verify", "_notice_of_completion"]
EXPLANATION = ("Access monitor: request paths are Path objects whose exists/is_dir/stat/open are answered from the in-memory filestore and recorded; `open` bound in the handler modules is recorded; "
               "a sys audit hook (open, os.remove/rename/mkdir/rmdir/truncate/listdir/scandir, shutil.rmtree) and wrapped os.stat/os.lstat catch anything else on the virtual paths during handler calls.")
ASSUMPTIONS = ["host access that neither raises an audit event nor goes through os.stat/os.lstat/Path methods/open would be missed"]
MANIFEST = {
    "technique": "bounded symbolic execution (z3) of the closed system and of sender retransmission/cancel scenarios over in-memory filestores with a host-access monitor asserted empty on every path",
    "design_ref": "DESIGN.md 7.16",
    "level_text": "Every feasible path of the C02/C03-shaped closed-loop harness and of a sender scenario with NAK retransmission and cancel is executed over VirtualFilestore implementations that live in memory only, with paths that do not exist on the host; on every path the host-access monitor (recording Path methods, open, audit events and os.stat on those paths) must be empty, every File Data PDU must come from a filestore read, and successful transfers must yield an identical in-memory file.",
    "level_note": "Trusted: z3, symex proxies/stubs, the monitor's coverage of host access routes (listed in the evidence).",
}
