"""C12 -- cancellation takes effect immediately and is signalled correctly."""
from __future__ import annotations

from spacepackets.cfdp import ChecksumType, ConditionCode, TransactionId
from spacepackets.cfdp.pdu.finished import DeliveryCode, FileStatus

from vf import hdst, hsrc, rigs, symex
from vf.explore import Spec
from vf.hdst import DstScenario
from vf.rigs import ACK, UNACK, pdu_kind
from vf.symex import sand
from vf.world import World, sym_len

RESOLVED = "/dst/file.bin"
from cfdppy.handler.dest import TransactionStep as DStep  # noqa: E402

DEST_PREFIXES = {
    "idle": [], "md": ["MD"], "md_fd": ["MD", "FD"], "md_fd_fd": ["MD", "FD", "FD"],
    "eof_missing": ["MD", "FD", "EOF", "TICK"], "fd_first": ["FD"], "md_eof_complete": ["MD", "FD0", "EOF"],
    # complete delivery already reported (Finished PDU sent, its ACK outstanding)
    "delivered_reported": ["MD", "FD0", "EOF", "TICK0"],
}
EXPECT_STEP = {
    "idle": (DStep.IDLE,), "md": (DStep.RECEIVING_FILE_DATA,), "md_fd": (DStep.RECEIVING_FILE_DATA,),
    "md_fd_fd": (DStep.RECEIVING_FILE_DATA,),
    "eof_missing": (DStep.WAITING_FOR_MISSING_DATA, DStep.RECV_FILE_DATA_WITH_CHECK_LIMIT_HANDLING),
    "fd_first": (DStep.WAITING_FOR_METADATA,), "md_eof_complete": (DStep.SENDING_EOF_ACK_PDU,),
    "delivered_reported": (DStep.WAITING_FOR_FINISHED_ACK,),
}
CANCEL_CONDS = [ConditionCode.CANCEL_REQUEST_RECEIVED, ConditionCode.POSITIVE_ACK_LIMIT_REACHED,
                ConditionCode.FILESTORE_REJECTION, ConditionCode.CHECK_LIMIT_REACHED]


def cancel_table(ctx):
    """the fault-handler table may hold any code for Cancel Request Received: a cancel REQUEST is not a
    declared fault, it takes effect whatever that entry says"""
    from cfdppy.mib import FaultHandlerCode
    e = ctx.pick("cancel_entry", ["default", "ignore", "abandon"])
    if e == "default":
        return None
    return {ConditionCode.CANCEL_REQUEST_RECEIVED:
            FaultHandlerCode.IGNORE_ERROR if e == "ignore" else FaultHandlerCode.ABANDON_TRANSACTION}


def tlv_entity(tlv):
    if tlv is None:
        return None
    return bytes(tlv.value)


def h_dest(ctx, mode, prefix, how):
    w = World(ctx)
    mode = ACK if mode == "ack" else UNACK
    closure = bool(ctx.choice("closure", 2))
    disposition = bool(ctx.choice("disposition", 2))
    sc = DstScenario(ctx, w, mode=mode, cktype=ChecksumType.CRC_32, closure=closure,
                     rig_kwargs={"disposition": disposition, "immediate_nak": bool(ctx.choice("imm", 2)),
                                 "fault_table": cancel_table(ctx)})
    fs = sc.rig.fs
    S = sc.S
    if prefix in ("md", "md_fd") and ctx.choice("preexisting", 2):
        # the destination file is already there (it is truncated at the Metadata PDU and is then the transaction's)
        fs.add_plain_file(RESOLVED, ctx.int("old_len", 0, 64))
        ctx.covered("preexisting_destination")
    for ev in DEST_PREFIXES[prefix]:
        if ev == "FD0":  # whole file in one PDU
            ctx.assume(S <= hdst.LMAX)
            o = sc.fd(0, S)
        elif ev == "TICK0":
            o = sc.tick0()
        elif ev == "TICK":
            o = sc.tick(f"dtp{sc.n}")
            sc.n += 1
        else:
            o = sc.step([ev])
        hdst.end_if_other_property(ctx, o)
        if o.exc is not None:
            ctx.end("infeasible")  # prefix not applicable in this mode (e.g. FD first, unacknowledged)
    if sc.rig.h.step not in EXPECT_STEP[prefix]:
        ctx.end("infeasible")  # this path of the prefix did not lead to the intended step
    ctx.covered("prefix_state_reached")
    busy = not sc.rig.idle
    tid = sc.rig.h.transaction_id
    file_there = RESOLVED in fs.files
    # the cancel may arrive together with a timer expiry
    w.tick(ctx.int("dt_cancel", 0, 2))
    if how in ("own", "other"):
        o = sc.cancel(None if how == "own" else TransactionId(sc.ids.src, sc.ids.other_seq))
        hdst.end_if_other_property(ctx, o)
        ctx.prop("cancel_return_value", o.ret is (busy and how == "own"),
                 lambda: {"sig": f"cancel_request({how}) returned {o.ret} with busy={busy}"})
        if not (busy and how == "own"):
            ctx.prop("refused_cancel_changes_nothing", o.step1 == o.step0 and not o.pdus and not o.ind)
            return
        cond, who = ConditionCode.CANCEL_REQUEST_RECEIVED, sc.ids.dst
    else:
        size = ctx.int("csize", 0, hdst.OMAX)
        ctx.assume(size <= S)
        cond = ctx.pick("ccond", CANCEL_CONDS)
        o = sc.eof(size=size, cond=cond)
        hdst.end_if_other_property(ctx, o)
        if o.exc is not None:
            ctx.covered("eof_cancel_not_admitted")
            return
        who = sc.ids.src
        if prefix in ("idle", "fd_first"):
            # Metadata still missing: the EOF(cancel) must nevertheless end the transaction
            more = [o] + [sc.tick0() for _ in range(2)]
            fin0 = [e for c in more for e in c.ind if e[0] == "finished"]
            ctx.prop("eof_cancel_before_metadata_finishes_transaction",
                     len(fin0) == 1 and fin0[0][2] == cond,
                     lambda: {"sig": "EOF(cancel) while Metadata is missing is treated like EOF(no error)"})
            fp0 = [p for c in more for p in c.pdus if pdu_kind(p) == "FIN"]
            if fp0:
                ctx.prop("finished_pdu_condition", fp0[0].condition_code == cond,
                         lambda: {"sig": f"Finished PDU condition {fp0[0].condition_code!r} (Metadata missing)"})
                ctx.prop("finished_pdu_fault_location", tlv_entity(fp0[0].fault_location) == bytes(who.as_bytes),
                         lambda: {"sig": f"fault location {tlv_entity(fp0[0].fault_location)} for eofc (Metadata missing)"})
                ctx.covered("finished_pdu_without_metadata")
            return
    ctx.covered("cancelled")
    calls = [o]
    for r in range(3):
        if sc.rig.idle:
            break
        o = sc.tick0()
        hdst.end_if_other_property(ctx, o)
        calls.append(o)
    ind = [e for c in calls for e in c.ind]
    pdus = [p for c in calls for p in c.pdus]
    fin = [e for e in ind if e[0] == "finished"]
    ctx.prop("one_transaction_finished_indication", len(fin) == 1,
             lambda: {"sig": f"{prefix}/{how}: {len(fin)} indications"})
    ctx.prop("indication_carries_cancel_condition", fin[0][2] == cond,
             lambda: {"sig": f"indication condition {fin[0][2]!r}"})
    ctx.prop("indication_transaction_id", fin[0][1] == tid)
    fpdus = [p for p in pdus if pdu_kind(p) == "FIN"]
    if mode == ACK or closure:
        ctx.prop("finished_pdu_sent", len(fpdus) >= 1, lambda: {"sig": "no Finished PDU"})
        ctx.prop("finished_pdu_condition", fpdus[0].condition_code == cond,
                 lambda: {"sig": f"Finished PDU condition {fpdus[0].condition_code!r}"})
        ctx.prop("finished_pdu_fault_location", tlv_entity(fpdus[0].fault_location) == bytes(who.as_bytes),
                 lambda: {"sig": f"fault location {tlv_entity(fpdus[0].fault_location)} for {how}"})
    else:
        ctx.prop("no_finished_pdu_without_closure", len(fpdus) == 0)
    deleted = any(c[0] == "delete" for call in calls for c in call.fs)
    if how == "eofc":
        ctx.prop("incomplete_file_deleted_iff_disposition", deleted == (disposition and file_there),
                 lambda: {"sig": f"deleted={deleted} disposition={disposition} file_there={file_there}"})
    else:
        ctx.prop("no_deletion_without_disposition", (not deleted) or disposition,
                 lambda: {"sig": "file deleted although disposition on cancellation is off"})
        if prefix in ("md", "md_fd", "md_fd_fd", "eof_missing"):
            # EOF not yet verified => the delivery is incomplete
            ctx.prop("incomplete_file_deleted_when_disposition", deleted == disposition,
                     lambda: {"sig": f"deleted={deleted} disposition={disposition}"})
        if prefix == "delivered_reported":
            # the delivery was complete and reported so (Finished PDU, Transaction-Finished) before the
            # cancel request: only an INCOMPLETE file is subject to the disposition
            ctx.prop("complete_file_not_deleted", not deleted,
                     lambda: {"sig": f"completely delivered file deleted by a late cancel request (disposition={disposition})"})
    if deleted:
        ctx.prop("file_gone", RESOLVED not in fs.files)
        ctx.prop("status_discarded", fin[0][4] == FileStatus.DISCARDED_DELIBERATELY)


def h_src(ctx, mode, prefix, how, nofile=False):
    from vf.harness.c10 import SRC_PREFIXES
    w = World(ctx)
    mode = ACK if mode == "ack" else UNACK
    sc = hsrc.SrcScenario(ctx, w, mode=mode, closure=bool(ctx.choice("closure", 2)), M=3,
                          rig_kwargs={"fault_table": cancel_table(ctx)})
    if nofile:
        from spacepackets.cfdp import MessageToUserTlv
        o = sc.put(src=None, dst=None, msgs=[MessageToUserTlv(b"hello")])  # metadata-only request
    else:
        o = sc.put()
    busy_before_start = True
    o = sc.sm()
    hsrc.end_if_other_property(ctx, o)
    sc.remember_conf()
    sent = 0
    for ev in SRC_PREFIXES[prefix]:
        if mode == UNACK and ev in ("NAK", "ACKEOF"):
            ev = "SM"
        o = sc.step([ev])
        hsrc.end_if_other_property(ctx, o)
    for c in sc.rig.history:
        for p in c.pdus:
            if pdu_kind(p) == "FD" and c.call[0] in ("SM", "TICK"):
                sent = symex.smax(sent, p.offset + sym_len(p.file_data))
    busy = not sc.rig.idle
    eof_sent_before = any(pdu_kind(p) == "EOF" for c in sc.rig.history for p in c.pdus)
    progress = sc.rig.h.progress
    o = sc.cancel(None if how == "own" else TransactionId(sc.ids.src, sc.ids.other_seq))
    hsrc.end_if_other_property(ctx, o)
    ctx.prop("cancel_return_value", o.ret is (busy and how == "own"),
             lambda: {"sig": f"cancel_request({how}) returned {o.ret} with busy={busy}"})
    if not (busy and how == "own"):
        ctx.prop("refused_cancel_changes_nothing", o.step1 == o.step0 and not o.pdus and not o.ind)
        return
    ctx.covered("cancelled")
    calls = [o]
    for r in range(2):
        if sc.rig.idle:
            break
        o = sc.sm()
        hsrc.end_if_other_property(ctx, o)
        calls.append(o)
    pdus = [p for c in calls for p in c.pdus]
    ctx.prop("next_pdu_is_cancel_eof", len(pdus) >= 1 and pdu_kind(pdus[0]) == "EOF"
             and pdus[0].condition_code == ConditionCode.CANCEL_REQUEST_RECEIVED,
             lambda: {"sig": str([pdu_kind(p) for p in pdus[:2]])})
    e = pdus[0]
    ctx.prop("cancel_eof_size_is_bytes_sent", sand(e.file_size == sent, e.file_size == progress),
             lambda: {"sig": "EOF(cancel) size differs from the file data sent"})
    ctx.prop("cancel_eof_checksum_covers_prefix",
             e.file_checksum == (bytes(4) if nofile else w.checksum(ChecksumType.CRC_32, sent)),
             lambda: {"sig": "EOF(cancel) checksum is not that of the prefix sent"})
    ctx.prop("no_new_file_data_after_cancel", not any(pdu_kind(p) == "FD" for p in pdus),
             lambda: {"sig": "File Data emitted after the cancel"})


def plan(tier):
    specs = []
    for mode in ("ack", "unack"):
        for pre in DEST_PREFIXES:
            if mode == "unack" and pre in ("fd_first",):
                continue
            if mode == "unack" and pre in ("md_eof_complete", "delivered_reported"):
                continue
            for how in ("own", "other", "eofc"):
                if pre == "idle" and how == "eofc" and mode == "unack":
                    continue
                if pre in ("md_eof_complete", "delivered_reported") and how == "eofc":
                    continue
                specs.append(Spec(f"dest/{mode}/{pre}/{how}", "vf.harness.c12:h_dest",
                                  {"mode": mode, "prefix": pre, "how": how}, twin_share=0.2,
                                  obligations=["finished_pdu_without_metadata"]
                                  if (mode == "ack" and pre in ("idle", "fd_first") and how == "eofc") else []))
    from vf.harness.c10 import SRC_PREFIXES
    for mode in ("ack", "unack"):
        for pre in SRC_PREFIXES:
            if mode == "unack" and pre in ("retx", "eof_timeout", "eof_acked"):
                continue
            if pre == "cancelled":
                continue  # a second cancel request on a cancelled transaction is outside the claim
            for how in ("own", "other"):
                specs.append(Spec(f"src/{mode}/{pre}/{how}", "vf.harness.c12:h_src",
                                  {"mode": mode, "prefix": pre, "how": how}, twin_share=0.2))
        for pre in ("md", "sm1"):
            specs.append(Spec(f"src/{mode}/metadata-only/{pre}/own", "vf.harness.c12:h_src",
                              {"mode": mode, "prefix": pre, "how": "own", "nofile": True}, twin_share=0.2,
                              obligations=["cancelled"] if (pre == "md" or mode == "ack") else []))
    return specs


BOUNDS = {
    "quick": "receiver: 7 canonical prefixes (idle, after Metadata, after 1-2 File Data PDUs with symbolic offset/length, waiting for missing data after EOF (acknowledged) / check-limit step (unacknowledged), File Data first, complete file + EOF); the cancel may coincide with a timer expiry (clock advance 0..2 before it) x {cancel own id, cancel other id, EOF(cancel) with symbolic size and 4 condition codes} x mode x closure x disposition x NAK mode; sender: 9 canonical prefixes x {own id, other id} x mode x closure, file of at most 3 segments with symbolic size",
    "thorough": "same (the space is small); the thorough tier adds the cross-solver pass",
}
OUTSIDE = "a second cancel request on an already cancelled transaction (the sender abandons); cancel requests between two arbitrary (non-canonical) histories; more than 3 segments; modular checksum over a prefix (decided for the native filestore in C09)"
FUNCTIONS = ["DestHandler.cancel_request", "_trigger_notice_of_completion_canceled", "_handle_eof_pdu", "_notice_of_completion", "_prepare_finished_pdu",
             "SourceHandler.cancel_request", "_notice_of_cancellation", "_prepare_eof_pdu", "_checksum_calculation", "_handle_eof_sent"]
EXPLANATION = "Prefix states are reached by canonical event prefixes with symbolic PDU fields; the cancel point and kind are parameters."
ASSUMPTIONS = ["in-memory filestore, abstract checksum token Hs(type, n) for the prefix checksum", "default fault handlers", "symbolic clock"]
MANIFEST = {
    "technique": "bounded symbolic execution (z3) of both real handlers from canonical prefixes with symbolic PDU fields; cancel by request (right/wrong id) and by EOF(cancel)",
    "design_ref": "DESIGN.md 7.12",
    "level_text": "From every canonical prefix state of either handler a cancel request with the right or a wrong transaction id, or an EOF(cancel) PDU with symbolic size and several condition codes, is executed on the real code; z3 shows the return value rule, the EOF(cancel) size = bytes sent and checksum token of exactly that prefix, no further file data, the receiver's Transaction-Finished condition, Finished PDU condition and fault location (local entity for a request, sender for EOF(cancel)) and the deletion rule for the incomplete file.",
    "level_note": "Trusted: z3, symex proxies/stubs (20% of passing and all failing paths re-run concretely). Prefix states are canonical, not all histories.",
}
