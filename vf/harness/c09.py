"""C09 -- file checksums are correct for every content, length and chunking."""
from __future__ import annotations

import os
import random
import shutil
import struct as real_struct
import tempfile
import time
from pathlib import Path

import z3

import cfdppy.crc as crcmodule
import cfdppy.filestore as fsmod
from cfdppy.exceptions import ChecksumNotImplemented
from cfdppy.filestore import NativeFilestore
from crcmod.predefined import PredefinedCrc as RealPredefinedCrc
from spacepackets.cfdp import ChecksumType

from vf import symex
from vf.explore import Spec
from vf.symex import SymBool, SymInt, _z, sand, smin
from vf.world import SymBytes, SymChecksum, World

POLY = {"crc32": 0x04C11DB7, "crc32c": 0x1EDC6F41}


def reflect(v, bits):
    r = 0
    for i in range(bits):
        if v >> i & 1:
            r |= 1 << (bits - 1 - i)
    return r


def crc_ref(data: bytes, kind: str) -> bytes:
    """bitwise reference: reflected CRC-32 with init/xorout 0xFFFFFFFF, 4 big-endian bytes"""
    polyr = reflect(POLY[kind], 32)
    reg = 0xFFFFFFFF
    for b in data:
        reg ^= b
        for _ in range(8):
            reg = (reg >> 1) ^ polyr if reg & 1 else reg >> 1
    return ((reg ^ 0xFFFFFFFF) & 0xFFFFFFFF).to_bytes(4, "big")


def modular_ref(data: bytes) -> bytes:
    tot = 0
    for i in range(0, len(data), 4):
        tot += int.from_bytes(data[i:i + 4].ljust(4, b"\0"), "big")
    return (tot % 2**32).to_bytes(4, "big")


# --------------------------------------------------------------------------- shims (sym mode only)
class RecCrc:
    """stands in for crcmod's PredefinedCrc: records what it is fed"""

    last = None

    def __init__(self, name):
        self.name = name
        self.chunks = []
        RecCrc.last = self

    def update(self, data):
        self.chunks.append(data)

    def digest(self):
        return ("digest", self)

    def copy(self):
        # crcmod: a copy continues from the current register value
        c = RecCrc(self.name)
        c.chunks = list(self.chunks)
        return c

    def new(self, arg=None):
        c = RecCrc(self.name)
        if arg is not None:
            c.update(arg)
        return c


class SymFileHandle:
    size = 0

    def __init__(self, *a, **k):
        self.pos = 0

    def __enter__(self):
        return self

    def __exit__(self, *a):
        return False

    def seek(self, off):
        self.pos = off

    def read(self, n):
        size = _z(SymFileHandle.size)
        o, rl = _z(self.pos), _z(n)
        got = z3.If(o >= size, 0, z3.If(o + rl <= size, rl, size - o))
        return SymBytes(0, self.pos, SymInt(z3.simplify(z3.If(got < 0, 0, got))))


class ExistingPath(type(Path())):
    def exists(self, **k):
        return True

    def is_file(self):
        return True

    def stat(self, **k):
        class St:
            st_size = len(ByteFile.content) if fsmod.__dict__.get("PredefinedCrc") is not RecCrc else SymFileHandle.size
        return St


def bind_chunk_shims(sym):
    if sym:
        fsmod.open = lambda *a, **k: SymFileHandle()
        fsmod.PredefinedCrc = RecCrc
    else:
        fsmod.__dict__.pop("open", None)
        fsmod.PredefinedCrc = RealPredefinedCrc


def h_chunks(ctx, M, ck, hi=4096):
    """the chunk loop of the real NativeFilestore.calculate_checksum feeds exactly the prefix"""
    w = World(ctx)
    bind_chunk_shims(w.sym)
    ctype = {"crc32": ChecksumType.CRC_32, "crc32c": ChecksumType.CRC_32C}[ck]
    flen = ctx.int("file_len", 0, hi)
    size = ctx.int("size_to_verify", 0, hi)
    seg = ctx.int("segment_len", 0, hi)
    ctx.assume(size <= flen)  # prefix lengths up to the file size
    ctx.assume(size <= M * seg)  # bounds the chunk loop
    fs = NativeFilestore()
    if w.sym:
        SymFileHandle.size = flen
        try:
            out = fs.calculate_checksum(ctype, ExistingPath("/x/file.bin"), size, seg)
        except ValueError:
            ctx.covered("zero_segment_len_refused")
            ctx.prop("value_error_only_for_zero_segment_len", seg == 0)
            return
        ctx.prop("zero_segment_len_is_refused", seg != 0, lambda: {"sig": "segment_len 0 accepted"})

        def check(out, rec, tag):
            ctx.prop("crc_object_for_the_type", out == ("digest", rec) and rec.name == ck,
                     lambda: {"sig": f"{tag}crcmod name {rec.name}"})
            pos = 0
            for i, c in enumerate(rec.chunks):
                ctx.prop("chunk_is_file_content_in_order", sand(c.src == 0, c.start == pos, c.n >= 0),
                         lambda: {"sig": f"{tag}chunk {i} is not the next part of the file"})
                ctx.prop("chunk_within_chunk_length", c.n <= seg)
                pos = pos + c.n
            ctx.covered(f"chunks={len(rec.chunks)}")
            ctx.prop("chunks_cover_exactly_the_prefix", pos == size,
                     lambda: {"sig": f"{tag}bytes fed to the CRC are not exactly the prefix size_to_verify"})
        check(out, RecCrc.last, "")
        # the filestore object is used again: the second calculation starts from scratch
        out2 = fs.calculate_checksum(ctype, ExistingPath("/x/file.bin"), size, seg)
        rec2 = RecCrc.last
        pos, ok = 0, out2 == ("digest", rec2)
        for c in rec2.chunks:
            ok = sand(ok, c.src == 0, c.start == pos)
            pos = pos + c.n
        ctx.prop("second_use_starts_from_scratch", sand(ok, pos == size),
                 lambda: {"sig": "second checksum on the same filestore object is not that of the prefix"})
        return
    # concrete twin: real file, real crcmod, against the bitwise reference
    d = tempfile.mkdtemp(prefix="vfc09-")
    try:
        p = Path(d) / "f.bin"
        data = w.src_bytes(0, flen)
        p.write_bytes(data)
        try:
            out = fs.calculate_checksum(ctype, p, size, seg)
        except ValueError:
            ctx.prop("value_error_only_for_zero_segment_len", seg == 0)
            return
        ctx.prop("zero_segment_len_is_refused", seg != 0, lambda: {"sig": "segment_len 0 accepted"})
        ctx.prop("chunks_cover_exactly_the_prefix", out == crc_ref(data[:size], ck),
                 lambda: {"sig": "real checksum differs from the reference CRC of the prefix"})
        ctx.prop("second_use_starts_from_scratch", fs.calculate_checksum(ctype, p, size, seg) == out,
                 lambda: {"sig": "second checksum on the same filestore object is not that of the prefix"})
        ctx.prop("verify_true_iff_equal", fs.verify_checksum(out, ctype, p, size, seg) is True
                 and fs.verify_checksum(bytes([out[0] ^ 1]) + out[1:], ctype, p, size, seg) is False)
    finally:
        shutil.rmtree(d, ignore_errors=True)


# ---- modular checksum over symbolic bytes
class SymByteSeq:
    def __init__(self, bs):
        self.bs = list(bs)

    def __len__(self):
        return len(self.bs)

    def __bool__(self):
        return len(self.bs) > 0

    def ljust(self, n, fill=b"\0"):
        return SymByteSeq(self.bs + [fill[0]] * max(0, n - len(self.bs)))

    def __getitem__(self, i):
        if isinstance(i, slice):
            return SymByteSeq(self.bs[i])
        return self.bs[i]

    def __iter__(self):
        return iter(self.bs)

    def __add__(self, o):
        return SymByteSeq(self.bs + (o.bs if isinstance(o, SymByteSeq) else list(o)))


class ByteFile:
    content = []

    def __init__(self, *a, **k):
        self.pos = 0

    def __enter__(self):
        return self

    def __exit__(self, *a):
        return False

    def read(self, n=-1):
        if n is None or n < 0:
            n = len(ByteFile.content) - self.pos
        out = ByteFile.content[self.pos:self.pos + n]
        self.pos += len(out)
        return SymByteSeq(out)


class IntShim:
    def __new__(cls, *a, **k):
        return int(*a, **k)

    @staticmethod
    def from_bytes(data, byteorder="big", signed=False):
        if not isinstance(data, SymByteSeq):
            return int.from_bytes(data, byteorder=byteorder, signed=signed)
        if byteorder != "big" or signed:
            raise symex.Unsupported("from_bytes variant")
        tot = 0
        for b in data.bs:
            tot = tot * 256 + b
        return tot


class StructShim:
    @staticmethod
    def pack(fmt, v):
        if isinstance(v, SymInt):
            if fmt != "!I":
                raise symex.Unsupported(f"struct.pack({fmt})")
            Ctx = symex.Ctx.cur
            # struct.pack('!I') raises outside [0, 2^32)
            if not (sand(v >= 0, v < 2**32)):
                raise real_struct.error("argument out of range")
            return SymChecksum(v.e)
        return real_struct.pack(fmt, v)


def bind_modular_shims(sym):
    if sym:
        crcmodule.open = lambda *a, **k: ByteFile()
        crcmodule.int = IntShim
        crcmodule.struct = StructShim
    else:
        for n in ("open", "int"):
            crcmodule.__dict__.pop(n, None)
        crcmodule.struct = real_struct
        fsmod.__dict__.pop("open", None)


MOD_CHUNKS = [4096, 1, 2, 3, 4, 5, 7]


def h_modular(ctx, n, k):
    """real modular checksum of a file of n symbolic bytes, prefix k, for several chunk lengths"""
    w = World(ctx)
    seglen = ctx.pick("chunk", MOD_CHUNKS)
    bind_modular_shims(w.sym)
    bs = [ctx.int(f"b{i}", 0, 255) for i in range(n)]
    fs = NativeFilestore()
    # reference: zero-padded big-endian 32-bit words of the prefix, summed modulo 2^32
    want = 0
    pref = bs[:k]
    for i in range(0, k, 4):
        word = pref[i:i + 4] + [0] * (4 - len(pref[i:i + 4]))
        v = 0
        for b in word:
            v = v * 256 + b
        want = want + v
    want = want % 2**32
    if w.sym:
        ByteFile.content = bs
        out = fs.calculate_checksum(ChecksumType.MODULAR, ExistingPath("/x/file.bin"), k, seglen)
        sig = {"sig": "modular checksum is not the word sum of the prefix"
                      + (" (prefix shorter than the file)" if k < n else "")
                      + (" (depends on the chunk length)" if seglen != 4096 else "")}
        if isinstance(out, SymChecksum):
            ctx.prop("modular_checksum_of_prefix", SymBool(out.e == _z(want)), lambda: sig)
        else:
            ctx.prop("modular_checksum_is_four_bytes", isinstance(out, (bytes, bytearray)) and len(out) == 4)
            ctx.prop("modular_checksum_of_prefix", want == int.from_bytes(out, "big"), lambda: sig)
        return
    d = tempfile.mkdtemp(prefix="vfc09-")
    try:
        p = Path(d) / "f.bin"
        p.write_bytes(bytes(bs))
        out = fs.calculate_checksum(ChecksumType.MODULAR, p, k, seglen)
        ctx.prop("modular_checksum_of_prefix", out == int(want).to_bytes(4, "big") and out == modular_ref(bytes(bs[:k])),
                 lambda: {"sig": "modular checksum is not the word sum of the prefix"
                          + (" (prefix shorter than the file)" if k < n else "")
                          + (" (depends on the chunk length)" if seglen != 4096 else "")})
        ctx.prop("verify_true_iff_equal", fs.verify_checksum(out, ChecksumType.MODULAR, p, k, seglen) is True
                 and fs.verify_checksum(bytes([out[0] ^ 1]) + out[1:], ChecksumType.MODULAR, p, k, seglen) is False)
    finally:
        shutil.rmtree(d, ignore_errors=True)


# --------------------------------------------------------------------------- direct lemmas
def bv_reflect(x, bits):
    return z3.Concat(*[z3.Extract(i, i, x) for i in range(bits)])


def lemma_one_step(kind):
    """one byte update of the reflected LSB-first register (what the reference above and crcmod's
    algorithm do) commutes with bit reversal of one byte update of the MSB-first polynomial
    division that defines CRC-32/ISO-HDLC resp. CRC-32C: for every register and byte."""
    poly = z3.BitVecVal(POLY[kind], 32)
    polyr = z3.BitVecVal(reflect(POLY[kind], 32), 32)
    reg = z3.BitVec("reg", 32)
    byte = z3.BitVec("byte", 8)
    r = reg ^ z3.ZeroExt(24, byte)
    for _ in range(8):
        r = z3.If(z3.Extract(0, 0, r) == 1, z3.LShR(r, 1) ^ polyr, z3.LShR(r, 1))
    m = bv_reflect(reg, 32) ^ z3.Concat(bv_reflect(byte, 8), z3.BitVecVal(0, 24))
    for _ in range(8):
        m = z3.If(z3.Extract(31, 31, m) == 1, (m << 1) ^ poly, m << 1)
    s = z3.Solver()
    s.set("timeout", 60000)
    s.add(bv_reflect(r, 32) != m)
    t = time.perf_counter()
    res = s.check()
    dt = time.perf_counter() - t
    if res == z3.unsat:
        return {"ok": True, "detail": f"one-step lemma {kind}: unsat in {dt:.3f}s (inductive over message length)",
                "solver_s": round(dt, 3)}
    if res == z3.sat:
        mdl = s.model()
        return {"ok": False, "detail": {"sig": f"one-step lemma {kind} fails"},
                "counterexample": {"reg": mdl[reg].as_long(), "byte": mdl[byte].as_long()}}
    return {"ok": None, "detail": f"one-step lemma {kind}: solver {res}"}


def lemma_concat():
    """byte-serial state machine: update(a); update(b) == update(a+b) holds by construction of the
    register model (one register, bytes consumed in order); proved here for two arbitrary bytes
    against the two-byte unrolling, i.e. the fold is associative over chunk boundaries"""
    polyr = z3.BitVecVal(reflect(POLY["crc32"], 32), 32)

    def step(reg, byte):
        r = reg ^ z3.ZeroExt(24, byte)
        for _ in range(8):
            r = z3.If(z3.Extract(0, 0, r) == 1, z3.LShR(r, 1) ^ polyr, z3.LShR(r, 1))
        return r
    reg, a, b = z3.BitVec("reg", 32), z3.BitVec("a", 8), z3.BitVec("b", 8)
    s = z3.Solver()
    mid = z3.BitVec("mid", 32)
    s.add(mid == step(reg, a))
    s.add(step(mid, b) != step(step(reg, a), b))
    res = s.check()
    return {"ok": res == z3.unsat, "detail": f"chunk boundary lemma: {res}"}


def validate_crcmod(seed):
    """concrete validation (not solver): crcmod's tables agree with the bitwise reference"""
    rnd = random.Random(seed)
    n = 0
    vectors = [b"", b"123456789", b"Hello World!", bytes(64), bytes([255] * 64)]
    for _ in range(40):
        vectors.append(bytes(rnd.randrange(256) for _ in range(rnd.randrange(0, 65))))
    fs = NativeFilestore()
    for kind, ct in (("crc32", ChecksumType.CRC_32), ("crc32c", ChecksumType.CRC_32C)):
        name = fs.checksum_type_to_crcmod_str(ct)
        for v in vectors:
            c = RealPredefinedCrc(name)
            c.update(v)
            n += 1
            if c.digest() != crc_ref(v, kind):
                return {"ok": False, "detail": {"sig": f"crcmod {name} differs from reference"},
                        "counterexample": {"data": v.hex()}}
    known = crc_ref(b"123456789", "crc32").hex() == "cbf43926" and crc_ref(b"123456789", "crc32c").hex() == "e3069283"
    return {"ok": bool(known), "detail": f"{n} vectors (lengths 0..64, seed {seed}) agree; check values cbf43926 / e3069283: {known}"}


def dispatch_checks():
    bind_chunk_shims(False)
    bind_modular_shims(False)
    fs = NativeFilestore()
    d = tempfile.mkdtemp(prefix="vfc09-")
    bad = []
    try:
        p = Path(d) / "f.bin"
        p.write_bytes(b"\x01\x02\x03\x04\x05")
        if fs.calculate_checksum(ChecksumType.NULL_CHECKSUM, p, 5) != bytes(4):
            bad.append("NULL checksum is not four zero bytes")
        # verification is true exactly for the calculated value, for every type (also the null checksum)
        for ct in (ChecksumType.NULL_CHECKSUM, ChecksumType.MODULAR, ChecksumType.CRC_32, ChecksumType.CRC_32C):
            for k in (0, 3, 5):
                good = fs.calculate_checksum(ct, p, k)
                if fs.verify_checksum(good, ct, p, k) is not True:
                    bad.append(f"verify_checksum rejects the calculated value ({ct.name}, prefix {k})")
                for wrong in (bytes([good[0] ^ 0x80]) + good[1:], good[:3] + bytes([good[3] ^ 1])):
                    if fs.verify_checksum(wrong, ct, p, k) is not False:
                        bad.append(f"verify_checksum accepts {wrong.hex()} for {ct.name}, prefix {k} (calculated {good.hex()})")
        try:
            fs.calculate_checksum(ChecksumType.CRC_32_PROXIMITY_1, p, 5)
            bad.append("unimplemented checksum type accepted")
        except ChecksumNotImplemented:
            pass
        try:
            fs.calculate_checksum(ChecksumType.CRC_32, Path(d) / "missing", 5)
            bad.append("missing file accepted")
        except FileNotFoundError:
            pass
        for seg in (1, 2, 3, 4, 5, 6, 4096):
            for k in range(6):
                if fs.calculate_checksum(ChecksumType.CRC_32, p, k, seg) != crc_ref(b"\x01\x02\x03\x04\x05"[:k], "crc32"):
                    bad.append(f"crc32 prefix {k} chunk {seg}")
    finally:
        shutil.rmtree(d, ignore_errors=True)
    return {"ok": not bad, "detail": "; ".join(bad) or "NULL -> zero bytes, unknown type -> ChecksumNotImplemented, missing file -> FileNotFoundError, 42 prefix/chunk pairs"}


def extra_checks(tier, seed):
    return [("crc32_one_step_lemma", lambda: lemma_one_step("crc32")),
            ("crc32c_one_step_lemma", lambda: lemma_one_step("crc32c")),
            ("chunk_boundary_lemma", lemma_concat),
            ("crcmod_agrees_with_reference", lambda: validate_crcmod(seed)),
            ("dispatch", dispatch_checks)]


def replay_extra(rp):
    print(rp)
    return 1


def plan(tier):
    q = tier == "quick"
    specs = []
    for ck in ("crc32", "crc32c"):
        m = 4 if q else 8
        specs.append(Spec(f"chunk-loop/{ck}/M={m}", "vf.harness.c09:h_chunks", {"M": m, "ck": ck}, twin_share=1.0,
                          obligations=["zero_segment_len_refused"] + [f"chunks={i}" for i in range(0, m + 1)]))
    # chunk lengths and files up to 128 KiB (a read hook that returns less than it was asked for shows here)
    specs.append(Spec("chunk-loop/crc32/large-chunks/M=2", "vf.harness.c09:h_chunks", {"M": 2, "ck": "crc32", "hi": 1 << 17},
                      twin_share=1.0))
    nmax = 6 if q else 9
    for n in range(0, nmax + 1):
        for k in range(0, n + 1):
            specs.append(Spec(f"modular/len={n}/prefix={k}", "vf.harness.c09:h_modular", {"n": n, "k": k},
                              twin_share=1.0))
    return specs


BOUNDS = {
    "quick": "chunk loop of the real NativeFilestore.calculate_checksum: file length, size_to_verify <= file length and segment_len symbolic in [0,4096] with at most M=4 chunks, CRC-32 and CRC-32C; modular checksum: every file length 0..6 x every prefix length x chunk length in {4096,1,2,3,4,5,7}, all bytes symbolic; CRC one-step lemmas over an arbitrary 32-bit register and byte (unbounded message length by induction); crcmod validated on 90 vectors of length 0..64",
    "thorough": "M=8 chunks, modular files up to 9 bytes",
}
OUTSIDE = "crcmod's tables beyond the validated vectors (C extension, not reachable by the solver); modular checksum of files longer than 9 bytes; size_to_verify larger than the file"
FUNCTIONS = ["NativeFilestore.calculate_checksum", "NativeFilestore._generate_crc_calculator", "checksum_type_to_crcmod_str", "read_from_opened_file", "VirtualFilestore.verify_checksum",
             "cfdppy.crc.calc_modular_checksum"]
EXPLANATION = ("C09 is decomposed: (1) the real chunk loop, symbolically, feeds the CRC object exactly the prefix in order for every chunk length; (2) bit-vector lemmas: the byte-serial "
               "reflected register model equals the MSB-first polynomial definition for an arbitrary register and byte, hence for every message length and every chunking; (3) crcmod vs that model on vectors "
               "(concrete validation); (4) the real modular checksum over symbolic bytes equals the word sum of the prefix.")
ASSUMPTIONS = ["shims in cfdppy.filestore (open, PredefinedCrc) and cfdppy.crc (open, int, struct) in symbolic mode only; the concrete twin of every path uses a real temporary file, the real crcmod and no shim",
               "crcmod implements the byte-serial algorithm of the reference model beyond the validated vectors"]
MANIFEST = {
    "technique": "bounded symbolic execution (z3) of the real chunk loop and modular checksum with symbolic lengths/bytes, plus z3 bit-vector one-step lemmas for CRC-32/CRC-32C",
    "design_ref": "DESIGN.md 7.9",
    "level_text": "The real calculate_checksum loop is executed with file length, prefix length and chunk length symbolic and must feed the CRC object exactly the prefix, in order, whatever the chunk length (0 refused with ValueError); the CRC definitions are tied to the byte-serial algorithm by an inductive one-step bit-vector lemma per polynomial (unsat for an arbitrary register and byte); the real modular checksum is executed over symbolic bytes for every length <= 6/9 and prefix; every path is re-run on a real temporary file with the real crcmod and compared with an independent bitwise reference; crcmod itself is validated on vectors only.",
    "level_note": "Trusted: z3, symex proxies, crcmod beyond the validated vectors, the OS file API (exercised concretely).",
}
