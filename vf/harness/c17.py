"""C17 -- native filestore operations match a reference file-system model (H-FS).

One real NativeFilestore operation from an arbitrary tree over a fixed universe of paths.
Symbolic mode: the OS is a small model behind Path/open/os/shutil shims in cfdppy.filestore
(file lengths, offsets, payload lengths symbolic, content at a witness index).  The concrete
twin of every path rebuilds the tree in a real temporary directory and runs the un-shimmed
NativeFilestore; both must agree with the reference model of the documented semantics.
"""
from __future__ import annotations

import copy
import os as real_os
import shutil as real_shutil
import tempfile
from pathlib import Path, PurePosixPath

import z3

import cfdppy.filestore as fsmod
from cfdppy.filestore import NativeFilestore
from spacepackets.cfdp.tlv import FilestoreResponseStatusCode as FRC

from vf import symex
from vf.explore import Spec
from vf.symex import SymBool, SymInt, _z, sand, smax, smin
from vf.world import ZERO8, C, SymBytes, World, sym_len

UNIVERSE = ["a", "b", "d", "d/a", "d/e", "m/x", "d/e/f"]  # m never exists: path with a missing parent
PARENT = {"d/a": "d", "d/e": "d", "m/x": "m", "d/e/f": "d/e"}  # d/e may be a directory (holding d/e/f) in "deep" specs
PAYLOAD_SRC = 90


def plen(d):
    """length of a payload: real bytes, SymBytes or a FileSlice read from another file"""
    return d.n if isinstance(d, (FileSlice, Zeros)) else sym_len(d)


def pbyte(d, i):
    """z3 term of the i-th byte of a payload"""
    if isinstance(d, Zeros):
        return ZERO8
    if isinstance(d, FileSlice):
        return d.f.byte(_z(d.off) + i)
    return C(_z(d.src), _z(d.start) + i)


class Zeros:
    """payload of n zero bytes (a file grown by truncate / a hole made explicit)"""

    def __init__(self, n):
        self.n = n

    def __len__(self):
        return self.n


class FileC:
    def __init__(self, fid, base_len):
        self.fid, self.base_len, self.log = fid, base_len, []

    def clone(self):
        c = FileC(self.fid, self.base_len)
        c.log = list(self.log)
        return c

    def length(self):
        end = self.base_len
        for o, d in self.log:
            n = plen(d)
            if symex.is_sym(n) or symex.is_sym(o) or symex.is_sym(end):
                e = _z(o) + _z(n)
                end = SymInt(z3.If(z3.And(_z(n) > 0, e > _z(end)), e, _z(end)))
            elif n > 0:
                end = max(end, o + n)
        return end

    def byte(self, x):
        """z3 byte term at index x (symbolic mode)"""
        val = z3.If(z3.And(0 <= x, x < _z(self.base_len)), C(self.fid, x), ZERO8)
        for o, d in self.log:
            oo, n = _z(o), _z(plen(d))
            val = z3.If(z3.And(oo <= x, x < oo + n), pbyte(d, x - oo), val)
        return val

    def bytes_conc(self):
        b = bytearray(pattern(self.fid, 0, self.base_len))
        for o, d in self.log:
            if len(d) > 0:
                if len(b) < o:
                    b.extend(bytes(o - len(b)))
                b[o:o + len(d)] = d
        return bytes(b)


def pattern(fid, start, n):
    return bytes(((fid * 37 + 11 * (start + i)) % 251) + 1 for i in range(n))


class Tree:
    def __init__(self):
        self.kind = {}  # path -> "file" | "dir" (absent = missing key)
        self.files = {}

    def clone(self):
        t = Tree()
        t.kind = dict(self.kind)
        t.files = {k: v.clone() for k, v in self.files.items()}
        return t

    def exists(self, p):
        return p in self.kind

    def is_dir(self, p):
        return self.kind.get(p) == "dir"

    def parent_ok(self, p):
        par = PARENT.get(p)
        return par is None or self.is_dir(par)

    def children(self, p):
        return [q for q in self.kind if PARENT.get(q) == p]

    def descendants(self, p):
        out = []
        for c in self.children(p):
            out.append(c)
            out.extend(self.descendants(c))
        return out


# --------------------------------------------------------------------------- symbolic OS behind the shims
class OS:
    tree = None


class OsPath(PurePosixPath):
    def key(self):
        return PurePosixPath(self).as_posix()

    def exists(self):
        return OS.tree.exists(self.key())

    def is_dir(self):
        return OS.tree.is_dir(self.key())

    def stat(self):
        if not self.exists():
            raise FileNotFoundError(self.key())

        class St:
            st_size = OS.tree.files[self.key()].length() if OS.tree.kind[self.key()] == "file" else 4096
        return St

    def is_file(self):
        return OS.tree.kind.get(self.key()) == "file"

    def open(self, mode="r", *a, **k):
        return Handle(self.key(), mode)

    def write_bytes(self, data):
        with Handle(self.key(), "wb") as h:
            h.write(data)
        return plen(data)

    def read_bytes(self):
        return Handle(self.key(), "rb").read()

    def touch(self, exist_ok=True):
        if not self.exists():
            Handle(self.key(), "x")
        elif not exist_ok:
            raise FileExistsError(self.key())

    def unlink(self, missing_ok=False):
        if not self.exists() and missing_ok:
            return
        OsShim.remove(self)

    def mkdir(self, *a, **k):
        OsShim.mkdir(self)

    def rmdir(self):
        OsShim.rmdir(self)

    def iterdir(self):
        if not self.is_dir():
            raise (NotADirectoryError if self.exists() else FileNotFoundError)(self.key())
        return iter([OsPath(c) for c in sorted(OS.tree.children(self.key()))])

    def glob(self, pattern):
        if pattern not in ("*", "**/*"):
            raise symex.Unsupported(f"glob pattern {pattern!r} is not modelled")
        names = OS.tree.children(self.key()) if pattern == "*" else OS.tree.descendants(self.key())
        return iter([OsPath(c) for c in sorted(names)])

    def rglob(self, pattern):
        if pattern != "*":
            raise symex.Unsupported(f"rglob pattern {pattern!r} is not modelled")
        return iter([OsPath(c) for c in sorted(OS.tree.descendants(self.key()))])

    def rename(self, new):
        _os_move(self.key(), OsPath(new).key(), overwrite=False)

    def replace(self, target):
        _os_move(self.key(), OsPath(target).key(), overwrite=True)


def _os_move(src, dst, overwrite):
    t = OS.tree
    _enotdir(src)
    if not t.exists(src):
        raise FileNotFoundError(src)
    _enotdir(dst)
    if not t.parent_ok(dst):
        raise FileNotFoundError(dst)
    if t.is_dir(dst) and not t.is_dir(src):
        raise IsADirectoryError(dst)
    if src == dst:
        return
    t.kind[dst] = t.kind.pop(src)
    if src in t.files:
        t.files[dst] = t.files.pop(src)


class Handle:
    """an open file: bound to the file object (inode), not to the name - it follows a rename"""

    def __init__(self, key, mode):
        t = OS.tree
        self.key, self.mode, self.pos = key, mode, 0
        if t.is_dir(key):
            raise IsADirectoryError(key)
        _enotdir(key)

        def fresh():
            if not t.parent_ok(key):
                raise FileNotFoundError(key)
            t.kind[key] = "file"
            t.files[key] = FileC(50 + UNIVERSE.index(key), 0)
        if "x" in mode:
            if t.exists(key):
                raise FileExistsError(key)
            fresh()
        elif mode.startswith("a"):
            if not t.exists(key):
                fresh()
            self.pos = t.files[key].length()
        elif mode.startswith("w"):
            if not t.exists(key):
                fresh()
            else:  # truncation of the existing inode
                f = t.files[key]
                f.fid, f.base_len, f.log = 50 + UNIVERSE.index(key), 0, []
        else:
            if not t.exists(key):
                raise FileNotFoundError(key)
        self.f = t.files[key]

    def __enter__(self):
        return self

    def __exit__(self, *a):
        return False

    def close(self):
        pass

    def flush(self):
        pass

    def tell(self):
        return self.pos

    def seek(self, o, whence=0):
        self.pos = o if whence == 0 else (self.pos + o if whence == 1 else self.f.length() + o)
        return self.pos

    def truncate(self, size=None):
        size = self.pos if size is None else size
        if isinstance(size, int) and size == 0:
            self.f.fid, self.f.base_len, self.f.log = 50 + UNIVERSE.index(self.key), 0, []
            return 0
        cur = self.f.length()
        if bool(SymBool(_z(size) >= _z(cur))):
            # growing: the new part reads as zeros
            self.f.log.append((cur, Zeros(SymInt(z3.simplify(_z(size) - _z(cur))))))
            return size
        raise symex.Unsupported("truncate to a smaller non-zero size is not modelled")

    def write(self, data):
        self.f.log.append((self.pos, data))
        self.pos = self.pos + plen(data)
        return plen(data)

    def read(self, n=None):
        f = self.f
        ln = f.length()
        if n is None or (isinstance(n, int) and n < 0):
            n = ln
        avail = SymInt(z3.simplify(z3.If(_z(self.pos) >= _z(ln), 0,
                                         z3.If(_z(self.pos) + _z(n) <= _z(ln), _z(n), _z(ln) - _z(self.pos)))))
        out = FileSlice(f.clone(), self.pos, avail)
        self.pos = self.pos + avail
        return out


class FileSlice:
    def __init__(self, f, off, n):
        self.f, self.off, self.n = f, off, n


def _enotdir(k):
    """POSIX: a path below a regular file does not 'not exist' (ENOENT), it is 'not a directory' (ENOTDIR)"""
    par = PARENT.get(k)
    while par is not None:
        if OS.tree.kind.get(par) == "file":
            raise NotADirectoryError(k)
        par = PARENT.get(par)


class OsShim:
    @staticmethod
    def remove(p):
        k = OsPath(p).key()
        t = OS.tree
        _enotdir(k)
        if not t.exists(k):
            raise FileNotFoundError(k)
        if t.is_dir(k):
            raise IsADirectoryError(k)
        del t.kind[k]
        t.files.pop(k, None)

    @staticmethod
    def rmdir(p):
        k = OsPath(p).key()
        t = OS.tree
        _enotdir(k)
        if not t.exists(k):
            raise FileNotFoundError(k)
        if not t.is_dir(k):
            raise NotADirectoryError(k)
        if t.children(k):
            raise OSError(39, "Directory not empty", k)
        del t.kind[k]

    @staticmethod
    def mkdir(p):
        k = OsPath(p).key()
        t = OS.tree
        _enotdir(k)
        if t.exists(k):
            raise FileExistsError(k)
        if not t.parent_ok(k):
            raise FileNotFoundError(k)
        t.kind[k] = "dir"


    # -- the rest of the os surface a filestore could plausibly use
    unlink = remove

    @staticmethod
    def rename(a, b):
        _os_move(OsPath(a).key(), OsPath(b).key(), overwrite=True)

    replace = rename

    @staticmethod
    def makedirs(p, mode=0o777, exist_ok=False):
        k = OsPath(p).key()
        t = OS.tree
        par = PARENT.get(k)
        if par is not None and not t.exists(par):
            OsShim.makedirs(par, exist_ok=True)
        if t.exists(k):
            if t.is_dir(k) and exist_ok:
                return
            raise FileExistsError(k)
        OsShim.mkdir(k)

    @staticmethod
    def removedirs(p):
        k = OsPath(p).key()
        OsShim.rmdir(k)
        par = PARENT.get(k)
        while par is not None:
            try:
                OsShim.rmdir(par)
            except OSError:
                break
            par = PARENT.get(par)

    @staticmethod
    def renames(old, new):
        ko, kn = OsPath(old).key(), OsPath(new).key()
        if PARENT.get(kn) is not None and not OS.tree.exists(PARENT[kn]):
            OsShim.makedirs(PARENT[kn])
        OsShim.rename(ko, kn)
        if PARENT.get(ko) is not None:
            try:
                OsShim.removedirs(PARENT[ko])
            except OSError:
                pass

    @staticmethod
    def listdir(p="."):
        k = OsPath(p).key()
        if not OS.tree.is_dir(k):
            raise (NotADirectoryError if OS.tree.exists(k) else FileNotFoundError)(k)
        return sorted(PurePosixPath(c).name for c in OS.tree.children(k))

    @staticmethod
    def scandir(p="."):
        class _Entry:
            def __init__(self, key):
                self.path, self.name = key, PurePosixPath(key).name

            def is_dir(self, follow_symlinks=True):
                return OS.tree.is_dir(self.path)

            def is_file(self, follow_symlinks=True):
                return OS.tree.kind.get(self.path) == "file"

            def __fspath__(self):
                return self.path

        class _It(list):
            def __enter__(self):
                return self

            def __exit__(self, *a):
                return False

            def close(self):
                pass
        k = OsPath(p).key()
        if not OS.tree.is_dir(k):
            raise (NotADirectoryError if OS.tree.exists(k) else FileNotFoundError)(k)
        return _It(_Entry(c) for c in sorted(OS.tree.children(k)))

    class path:  # noqa: N801 - os.path
        exists = staticmethod(lambda p: OS.tree.exists(OsPath(p).key()))
        isdir = staticmethod(lambda p: OS.tree.is_dir(OsPath(p).key()))
        isfile = staticmethod(lambda p: OS.tree.kind.get(OsPath(p).key()) == "file")
        getsize = staticmethod(lambda p: OsPath(p).stat().st_size)


class ShutilShim:
    @staticmethod
    def rmtree(p):
        k = OsPath(p).key()
        t = OS.tree
        if not t.exists(k):
            raise FileNotFoundError(k)
        if not t.is_dir(k):
            raise NotADirectoryError(k)
        for c in t.descendants(k):
            t.kind.pop(c, None)
            t.files.pop(c, None)
        del t.kind[k]


def bind(sym):
    if sym:
        fsmod.open = lambda p, mode="r", *a, **k: Handle(OsPath(p).key(), mode)
        fsmod.os = OsShim
        fsmod.shutil = ShutilShim
    else:
        fsmod.__dict__.pop("open", None)
        fsmod.os = real_os
        fsmod.shutil = real_shutil


# --------------------------------------------------------------------------- reference model
OPS = ["create_file", "delete_file", "rename_file", "replace_file", "create_directory", "remove_directory",
       "remove_directory_recursive", "truncate_file", "write_data", "read_data", "file_size", "file_exists",
       "is_directory"]
ANY_UNCHANGED = "ANY-WITH-TREE-UNCHANGED"


def reference(t, op, p, q, off, payload, rlen):
    """returns (expected result, expected tree); result ANY_UNCHANGED where the documentation is silent"""
    n = t.clone()
    if op == "create_file":
        if t.exists(p):
            return FRC.CREATE_NOT_ALLOWED, n
        if not t.parent_ok(p):
            return FRC.CREATE_NOT_ALLOWED, n
        n.kind[p] = "file"
        n.files[p] = FileC(50 + UNIVERSE.index(p), 0)
        return FRC.CREATE_SUCCESS, n
    if op == "delete_file":
        if not t.exists(p):
            return FRC.DELETE_FILE_DOES_NOT_EXIST, n
        if t.is_dir(p):
            return FRC.DELETE_NOT_ALLOWED, n
        del n.kind[p]
        del n.files[p]
        return FRC.DELETE_SUCCESS, n
    if op == "rename_file":
        if t.is_dir(p) or t.is_dir(q):
            return FRC.RENAME_NOT_PERFORMED, n
        if not t.exists(p):
            return FRC.RENAME_OLD_FILE_DOES_NOT_EXIST, n
        if t.exists(q):
            return FRC.RENAME_NEW_FILE_DOES_EXIST, n
        if not t.parent_ok(q):
            return ANY_UNCHANGED, n
        n.kind[q] = n.kind.pop(p)
        n.files[q] = n.files.pop(p)
        return FRC.RENAME_SUCCESS, n
    if op == "replace_file":  # p = replaced, q = source
        if t.is_dir(p) or t.is_dir(q):
            return FRC.REPLACE_NOT_ALLOWED, n
        if not t.exists(p):
            return FRC.REPLACE_FILE_NAME_ONE_TO_BE_REPLACED_DOES_NOT_EXIST, n
        if not t.exists(q):
            return FRC.REPLACE_FILE_NAME_TWO_REPLACE_SOURCE_NOT_EXIST, n
        n.files[p] = n.files.pop(q)
        del n.kind[q]
        return FRC.REPLACE_SUCCESS, n
    if op == "create_directory":
        if t.exists(p):
            return FRC.CREATE_DIR_CAN_NOT_BE_CREATED, n
        if not t.parent_ok(p):
            return ANY_UNCHANGED, n
        n.kind[p] = "dir"
        return FRC.CREATE_DIR_SUCCESS, n
    if op in ("remove_directory", "remove_directory_recursive"):
        if not t.exists(p):
            return FRC.REMOVE_DIR_DOES_NOT_EXIST, n
        if not t.is_dir(p):
            return FRC.REMOVE_DIR_NOT_ALLOWED, n
        if op == "remove_directory" and t.children(p):
            return FRC.REMOVE_DIR_NOT_ALLOWED, n
        for c in t.descendants(p):
            n.kind.pop(c, None)
            n.files.pop(c, None)
        del n.kind[p]
        return FRC.REMOVE_DIR_SUCCESS, n
    if op == "truncate_file":
        if not t.exists(p):
            return FileNotFoundError, n
        if t.is_dir(p):
            return ANY_UNCHANGED, n
        n.files[p] = FileC(50 + UNIVERSE.index(p), 0)
        return None, n
    if op == "write_data":
        if not t.exists(p):
            return FileNotFoundError, n
        if t.is_dir(p):
            return ANY_UNCHANGED, n
        n.files[p].log.append((off, payload))
        return None, n
    if op == "read_data":
        if not t.exists(p):
            return FileNotFoundError, n
        if t.is_dir(p):
            return ANY_UNCHANGED, n
        return ("slice", p, off, rlen), n
    if op == "file_size":
        if not t.exists(p):
            return FileNotFoundError, n
        if t.is_dir(p):
            return ANY_UNCHANGED, n
        return ("size", p), n
    if op == "file_exists":
        return t.exists(p), n
    if op == "is_directory":
        return t.is_dir(p), n
    raise symex.HarnessError(op)


def call_real(fs, op, P, p, q, off, payload, rlen):
    a, b = P(p), P(q)
    if op == "create_file":
        return fs.create_file(a)
    if op == "delete_file":
        return fs.delete_file(a)
    if op == "rename_file":
        return fs.rename_file(a, b)
    if op == "replace_file":
        return fs.replace_file(a, b)
    if op == "create_directory":
        return fs.create_directory(a)
    if op == "remove_directory":
        return fs.remove_directory(a, False)
    if op == "remove_directory_recursive":
        return fs.remove_directory(a, True)
    if op == "truncate_file":
        return fs.truncate_file(a)
    if op == "write_data":
        return fs.write_data(a, payload, off)
    if op == "read_data":
        return fs.read_data(a, off, rlen)
    if op == "file_size":
        return fs.file_size(a)
    if op == "file_exists":
        return fs.file_exists(a)
    if op == "is_directory":
        return fs.is_directory(a)
    raise symex.HarnessError(op)


def tree_same_sym(ctx, got, want, x, what):
    ctx.prop(f"{what}_same_nodes", got.kind == want.kind,
             lambda: {"sig": f"{what}: tree {sorted(got.kind.items())} expected {sorted(want.kind.items())}"})
    for k, f in want.files.items():
        g = got.files[k]
        ctx.prop(f"{what}_same_length", g.length() == f.length(), lambda: {"sig": f"{what}: length of {k}"})
        ctx.prop(f"{what}_same_content", SymBool(z3.Implies(z3.And(0 <= _z(x), _z(x) < _z(f.length())),
                                                            g.byte(_z(x)) == f.byte(_z(x)))),
                 lambda: {"sig": f"{what}: content of {k} at the witness"})


def harness(ctx, op, p, q, deep=False):
    w = World(ctx)
    bind(w.sym)
    # ---- arbitrary tree over the universe
    t = Tree()
    for k in UNIVERSE:
        if k == "m/x" or (k == "d/e/f" and not deep):
            continue
        kinds = ["absent", "file", "dir"] if k in ("a", "b", "d") or (deep and k == "d/e") else ["absent", "file"]
        kd = ctx.pick("kind_" + k.replace("/", "_"), kinds)
        if kd == "absent":
            continue
        if not t.parent_ok(k):
            ctx.end("infeasible")
        t.kind[k] = kd
        if kd == "file":
            t.files[k] = FileC(UNIVERSE.index(k) + 1, ctx.int("len_" + k.replace("/", "_"), 0, 64))
    off = ctx.int("off", 0, 64) if op in ("write_data", "read_data") else 0
    plen = ctx.int("plen", 0, 32) if op == "write_data" else 0
    rlen = ctx.int("rlen", 0, 96) if op == "read_data" else 0
    x = ctx.int("x", 0, 200)
    if p == q and op in ("rename_file", "replace_file"):
        ctx.end("infeasible")
    ctx.note(op, p, q, sorted(t.kind.items()))
    if w.sym:
        payload = SymBytes(PAYLOAD_SRC, 0, plen)
        want_res, want_tree = reference(t, op, p, q, off, payload, rlen)
        OS.tree = t.clone()
        fs = NativeFilestore()
        try:
            got = call_real(fs, op, OsPath, p, q, off, payload, rlen)
        except Exception as e:  # noqa: BLE001 - judged below
            got = e
        after = OS.tree
        judge(ctx, w, op, t, want_res, want_tree, got, after, x, p, off, rlen)
        return
    # ---- concrete twin on a real directory with the un-shimmed filestore
    root = Path(tempfile.mkdtemp(prefix="vfc17-"))
    try:
        for k, kd in t.kind.items():
            if kd == "dir":
                (root / k).mkdir()
        for k, f in t.files.items():
            (root / k).write_bytes(f.bytes_conc())
        payload = pattern(PAYLOAD_SRC, 0, plen)
        want_res, want_tree = reference(t, op, p, q, off, payload, rlen)
        fs = NativeFilestore()
        try:
            got = call_real(fs, op, lambda s: root / s, p, q, off, payload, rlen)
        except Exception as e:  # noqa: BLE001
            got = e
        after = Tree()
        for k in UNIVERSE:
            pp = root / k
            if pp.is_dir():
                after.kind[k] = "dir"
            elif pp.exists():
                after.kind[k] = "file"
                f = FileC(0, 0)
                f.log = [(0, pp.read_bytes())]
                after.files[k] = f
        extra = sorted(str(pth.relative_to(root)) for pth in root.rglob("*") if str(pth.relative_to(root)) not in UNIVERSE and str(pth.relative_to(root)) != "m")
        ctx.prop("nothing_outside_the_universe", not extra, lambda: {"sig": f"unexpected paths {extra}"})
        judge(ctx, w, op, t, want_res, want_tree, got, after, x, p, off, rlen)
    finally:
        real_shutil.rmtree(root, ignore_errors=True)


SEQ_STEPS = {
    "core": [("write_data", "a", "a"), ("write_data", "b", "b"), ("rename_file", "a", "b"), ("rename_file", "b", "a"),
             ("replace_file", "a", "b"), ("replace_file", "b", "a"), ("create_file", "a", "a"), ("create_file", "b", "b")],
    "more": [("delete_file", "a", "a"), ("delete_file", "b", "b"), ("truncate_file", "a", "a"),
             ("truncate_file", "b", "b"), ("read_data", "a", "a"), ("read_data", "b", "b")],
}


def read_tree(root):
    after = Tree()
    for k in UNIVERSE:
        pp = root / k
        if pp.is_dir():
            after.kind[k] = "dir"
        elif pp.exists():
            after.kind[k] = "file"
            f = FileC(0, 0)
            f.log = [(0, pp.read_bytes())]
            after.files[k] = f
    return after


def h_seq(ctx, K, alphabet):
    """K operations in a row on ONE NativeFilestore object over the names a and b: the object may carry
    state from one call to the next (the one-step harness cannot see that)"""
    w = World(ctx)
    bind(w.sym)
    steps = [st for name in alphabet for st in SEQ_STEPS[name]]
    t = Tree()
    for k in ("a", "b"):
        if ctx.pick("kind_" + k, ["absent", "file"]) == "file":
            t.kind[k] = "file"
            t.files[k] = FileC(UNIVERSE.index(k) + 1, ctx.int("len_" + k, 0, 8))
    x = ctx.int("x", 0, 40)
    root = None
    fs = NativeFilestore()
    if w.sym:
        OS.tree = t.clone()
        P = OsPath
    else:
        root = Path(tempfile.mkdtemp(prefix="vfc17s-"))
        for k, f in t.files.items():
            (root / k).write_bytes(f.bytes_conc())
        P = lambda s: root / s  # noqa: E731
    try:
        for i in range(K):
            op, p, q = steps[ctx.choice(f"step{i}", len(steps))]
            off = ctx.int(f"off{i}", 0, 8) if op in ("write_data", "read_data") else 0
            pl = ctx.int(f"plen{i}", 0, 8) if op == "write_data" else 0
            rlen = ctx.int(f"rlen{i}", 0, 16) if op == "read_data" else 0
            ctx.note(i, op, p, q)
            payload = SymBytes(PAYLOAD_SRC + i, 0, pl) if w.sym else pattern(PAYLOAD_SRC + i, 0, pl)
            want_res, want_tree = reference(t, op, p, q, off, payload, rlen)
            try:
                got = call_real(fs, op, P, p, q, off, payload, rlen)
            except Exception as e:  # noqa: BLE001 - judged below
                got = e
            after = OS.tree if w.sym else read_tree(root)
            judge(ctx, w, op, t, want_res, want_tree, got, after, x, p, off, rlen)
            t = want_tree
            ctx.covered(f"step{i}:{op}")
    finally:
        if root is not None:
            real_shutil.rmtree(root, ignore_errors=True)


def judge(ctx, w, op, before, want_res, want_tree, got, after, x, p, off, rlen):
    silent = want_res is ANY_UNCHANGED
    if silent:
        ctx.covered("documentation_silent")
    elif isinstance(want_res, type) and issubclass(want_res, BaseException):
        ctx.prop("documented_exception", isinstance(got, want_res),
                 lambda: {"sig": f"{op}: expected {want_res.__name__}, got {got!r}"})
    elif isinstance(want_res, tuple) and want_res[0] == "size":
        ctx.prop("no_exception", not isinstance(got, BaseException), lambda: {"sig": f"{op}: {got!r}"})
        wl = before.files[p].length() if w.sym else len(before.files[p].bytes_conc())
        ctx.prop("size_is_file_length", got == wl, lambda: {"sig": f"{op}: size"})
    elif isinstance(want_res, tuple) and want_res[0] == "slice":
        ctx.prop("no_exception", not isinstance(got, BaseException), lambda: {"sig": f"{op}: {got!r}"})
        f = before.files[p]
        if w.sym:
            ln = f.length()
            want_n = SymInt(z3.simplify(z3.If(_z(off) >= _z(ln), 0,
                                              z3.If(_z(off) + _z(rlen) <= _z(ln), _z(rlen), _z(ln) - _z(off)))))
            ctx.prop("read_length", got.n == want_n, lambda: {"sig": "read_data length"})
            ctx.prop("read_content", SymBool(z3.Implies(z3.And(_z(got.off) <= _z(x), _z(x) < _z(got.off) + _z(got.n)),
                                                        z3.And(_z(got.off) == _z(off), got.f.byte(_z(x)) == f.byte(_z(x))))),
                     lambda: {"sig": "read_data content at the witness"})
        else:
            want = f.bytes_conc()[off:off + rlen]
            ctx.prop("read_length", len(got) == len(want), lambda: {"sig": "read_data length"})
            ctx.prop("read_content", got == want, lambda: {"sig": "read_data content at the witness"})
    else:
        ctx.prop("result_as_documented", (not isinstance(got, BaseException)) and got == want_res,
                 lambda: {"sig": f"{op}: expected {want_res!r}, got {got!r}"})
        refusal = isinstance(want_res, FRC) and "SUCCESS" not in want_res.name
        if refusal:
            ctx.covered("refusal:" + want_res.name)
    # resulting tree
    if w.sym:
        tree_same_sym(ctx, after, want_tree, x, "after")
    else:
        ctx.prop("after_same_nodes", after.kind == want_tree.kind,
                 lambda: {"sig": f"after: tree {sorted(after.kind.items())} expected {sorted(want_tree.kind.items())}"})
        for k, f in want_tree.files.items():
            ctx.prop("after_same_length", len(after.files[k].bytes_conc()) == len(f.bytes_conc()),
                     lambda: {"sig": f"after: length of {k}"})
            ctx.prop("after_same_content", after.files[k].bytes_conc() == f.bytes_conc(),
                     lambda: {"sig": f"after: content of {k}"})


TWO_PATH = ("rename_file", "replace_file")


def plan(tier):
    specs = []
    for op in OPS:
        for p in UNIVERSE:
            qs = UNIVERSE if op in TWO_PATH else [p]
            if op in TWO_PATH and tier == "quick":
                qs = [q for q in UNIVERSE if q in ("a", "b", "d", "d/a", "m/x")]
                if p in ("d/e",):
                    continue
            for q in qs:
                specs.append(Spec(f"{op}/{p}" + (f"->{q}" if op in TWO_PATH else ""), "vf.harness.c17:harness",
                                  {"op": op, "p": p, "q": q}, twin_share=1.0))
    # nested directories: d/e may itself be a directory holding d/e/f
    for op, p in (("remove_directory_recursive", "d"), ("remove_directory", "d"), ("remove_directory_recursive", "d/e"),
                  ("remove_directory", "d/e"), ("delete_file", "d/e"), ("create_file", "d/e/f")):
        specs.append(Spec(f"{op}/{p}/nested", "vf.harness.c17:harness", {"op": op, "p": p, "q": p, "deep": True},
                          twin_share=1.0))
    # sequences on one filestore object (state carried from call to call)
    specs.append(Spec("sequence/K=4/core", "vf.harness.c17:h_seq", {"K": 4, "alphabet": ["core"]}, twin_share=0.1))
    specs.append(Spec("sequence/K=3/core+more", "vf.harness.c17:h_seq", {"K": 3, "alphabet": ["core", "more"]},
                      twin_share=0.1))
    if tier != "quick":
        specs.append(Spec("sequence/K=4/core+more", "vf.harness.c17:h_seq", {"K": 4, "alphabet": ["core", "more"]},
                          twin_share=0.02))
    return specs


BOUNDS = {
    "quick": "universe a, b, d, d/a, d/e (+ m/x whose parent never exists); every tree-consistent assignment absent/file/directory (directories: a, b, d) with symbolic file lengths 0..64; one operation of 13 (create/delete/rename/replace file, create/remove directory (plain and recursive), truncate, write at offset, read at offset, size, exists, is_directory) with every path choice (two-path operations over a reduced set of path pairs), symbolic offset 0..64, payload length 0..32, read length 0..96; content compared at a symbolic witness index; one step from an arbitrary state covers histories over this universe as long as the filestore object itself is stateless; therefore also: every sequence of K=4 operations from {write, rename, replace, create} and of K=3 from those plus {delete, truncate, read} on ONE filestore object over the names a, b (offsets/lengths 0..8)",
    "thorough": "all 36 path pairs for the two-path operations",
}
OUTSIDE = "names outside the universe, symlinks, permissions, list_directory (shells out), rename/replace of a path onto itself; where the documentation is silent (missing parent directory for rename/create_directory, truncate/write/read/size on a directory) any outcome that leaves the tree unchanged is accepted"
FUNCTIONS = ["NativeFilestore.create_file", "delete_file", "rename_file", "replace_file", "create_directory", "remove_directory", "truncate_file", "write_data", "read_data",
             "file_size", "file_exists", "is_directory", "read_from_opened_file"]
EXPLANATION = ("Symbolic mode runs the real NativeFilestore methods over a small OS model bound to open/os/shutil/Path in cfdppy.filestore; the concrete twin of EVERY path rebuilds the tree "
               "in a real temporary directory and runs the un-shimmed methods on the real OS - this ties the OS model to the OS. Both are compared with a reference model of the documented semantics.")
ASSUMPTIONS = ["OS model of POSIX semantics for exists/is_dir/stat/rename/replace/open(rb,r+b,w,x)/remove/rmdir/mkdir/rmtree (validated on every path by the real-directory twin)",
               "file content = per-file uninterpreted byte function plus write log; compared at a witness index"]
MANIFEST = {
    "technique": "bounded symbolic execution (z3) of the real NativeFilestore methods, one step from an arbitrary tree over a fixed universe, against a reference model; every path replayed on a real directory",
    "design_ref": "DESIGN.md 7.17",
    "level_text": "For every tree over the universe, every operation and path choice, with lengths and offsets symbolic, the real method is executed over an OS model and must return the documented status code or data and leave the tree and (at a witness index) the file bytes exactly as the reference model says: success only with the effect, the specific refusal code, refusal leaves everything unchanged, written data reads back and other bytes are untouched. Each explored path is then repeated with the model's values on a real temporary directory with the unmodified NativeFilestore.",
    "level_note": "Trusted: z3, symex proxies, the OS model (checked on every path against the real OS), the reference model (my reading of the documented semantics; silent cases listed).",
}
