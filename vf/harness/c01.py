"""C01 -- a reported successful delivery implies a byte-identical file."""
from __future__ import annotations

import z3

from spacepackets.cfdp import ChecksumType, ConditionCode
from spacepackets.cfdp.pdu.finished import DeliveryCode, FileStatus

from vf import hdst, hsrc, rigs, symex
from vf.explore import Spec
from vf.hdst import DstScenario
from vf.rigs import ACK, UNACK, pdu_kind
from vf.symex import SymBool, _z
from vf.world import C, World

RESOLVED = "/dst/file.bin"
CK = {"crc32": ChecksumType.CRC_32, "crc32c": ChecksumType.CRC_32C, "null": ChecksumType.NULL_CHECKSUM,
      "modular": ChecksumType.MODULAR}


def is_success(cond, delivery, status):
    return (cond == ConditionCode.NO_ERROR and delivery == DeliveryCode.DATA_COMPLETE
            and status == FileStatus.FILE_RETAINED)


def identical(w, fs, S, x):
    if RESOLVED not in fs.files:
        return False
    if not w.sym:
        return fs.conc_bytes(RESOLVED) == w.src_bytes(0, S)
    end = _z(fs.file_end(RESOLVED))
    xx = _z(x)
    return SymBool(z3.And(end == _z(S),
                          z3.Implies(z3.And(0 <= xx, xx < _z(S)), fs.byte_term(RESOLVED, xx) == C(0, xx))))


def h_dest(ctx, N, mode, ck, grid=False, reject=False, M=3, prefix="none", shape="file"):
    cktype = CK[ck]
    w = World(ctx, injective=ck in ("crc32", "crc32c"))
    x = ctx.int("x", 0, hdst.OMAX + hdst.LMAX)
    w.witness = x
    mode = ACK if mode == "ack" else UNACK
    closure = bool(ctx.choice("closure", 2))
    imm = bool(ctx.choice("imm", 2)) if mode == ACK else True
    seg = None
    if grid:
        seg = ctx.int("L", 1, hdst.LMAX)
    sc = DstScenario(ctx, w, mode=mode, cktype=cktype, closure=closure, seg=seg,
                     dst_name="/dst" if shape in ("dir", "dir_existing") else RESOLVED,
                     rig_kwargs={"immediate_nak": imm})
    if shape in ("dir", "dir_existing"):
        sc.rig.fs.add_dir("/dst")
    if shape in ("existing", "dir_existing"):
        # a file is already there (possibly longer than the one delivered now)
        sc.rig.fs.add_plain_file(RESOLVED, ctx.int("old_len", 0, 64))
    sc.M = M
    if grid:
        ctx.assume(sc.S <= M * seg)
    fs = sc.rig.fs
    if reject:
        cnt = [0]

        def rej(kind, p):
            if kind != "write":
                return None
            cnt[0] += 1
            if ctx.choice(f"rej{cnt[0]}", 2):
                ctx.covered("write_rejected")
                return PermissionError
            return None
        fs.reject = rej
    if grid:
        alphabet = ["MD", "FDG", "EOF", "TICK"]
    else:
        alphabet = ["MD", "FDX", "EOF", "TICK"]
    pre = sc.run_prefix(prefix)
    for i in range(len(pre) + N):
        o = pre[i] if i < len(pre) else sc.step(alphabet)
        hdst.end_if_other_property(ctx, o)
        for e in o.ind:
            if e[0] == "finished" and is_success(e[2], e[3], e[4]):
                ctx.covered("success_indication")
                ctx.prop("success_indication_implies_identical_file", identical(w, fs, sc.S, x),
                         lambda: {"sig": "Transaction-Finished(success) with differing file"})
        for p in o.pdus:
            if pdu_kind(p) == "FIN" and is_success(p.condition_code, p.delivery_code, p.file_status):
                ctx.covered("success_finished_pdu")
                ctx.prop("success_finished_pdu_implies_identical_file", identical(w, fs, sc.S, x),
                         lambda: {"sig": "Finished(success) PDU with differing file"})


def h_sender(ctx, T, mode, prefix):
    """sender-side success (closure or acknowledged) only relays a received Finished PDU"""
    from vf.harness.c10 import SRC_PREFIXES, SRC_STATE
    w = World(ctx)
    mode = ACK if mode == "ack" else UNACK
    sc = hsrc.SrcScenario(ctx, w, mode=mode, closure=True if mode == UNACK else bool(ctx.choice("closure", 2)), M=2)
    o = sc.put()
    o = sc.sm()
    sc.remember_conf()
    pre_events = SRC_PREFIXES[prefix]
    fins = []
    for i in range(len(pre_events) + T):
        if i < len(pre_events):
            alphabet = [pre_events[i]]
            if mode == UNACK and pre_events[i] in ("NAK", "ACKEOF"):
                alphabet = ["SM"]
        else:
            alphabet = SRC_STATE[mode]
        o = sc.step(alphabet)
        hsrc.end_if_other_property(ctx, o)
        ev = sc.events[-1]
        if ev[0] == "FIN" and o.exc is None:
            fins.append(ev[1:])
        for e in o.ind:
            if e[0] == "finished":
                ctx.covered("sender_finished_indication")
                if is_success(e[2], e[3], e[4]):
                    ctx.covered("sender_success")
                    ctx.prop("sender_success_relays_a_finished_pdu",
                             (int(e[2]), int(e[3]), int(e[4])) in [tuple(f) for f in fins],
                             lambda: {"sig": "sender success without matching Finished PDU"})


def plan(tier):
    q = tier == "quick"
    specs = []
    na, nu = (4, 4) if q else (5, 5)
    for ck in (["crc32"] if q else ["crc32", "crc32c"]):
        if ck == "crc32c":
            na = 4  # the second CRC type shares the abstraction; one level less
        specs.append(Spec(f"dest/ack/{ck}/N={na}", "vf.harness.c01:h_dest", {"N": na, "mode": "ack", "ck": ck},
                          twin_share=0.02, obligations=["success_indication", "success_finished_pdu"]))
        specs.append(Spec(f"dest/unack/{ck}/N={nu}", "vf.harness.c01:h_dest", {"N": nu, "mode": "unack", "ck": ck},
                          twin_share=0.05, obligations=["success_indication"]))
        specs.append(Spec(f"dest/unack/{ck}/write-rejection/N={nu}", "vf.harness.c01:h_dest",
                          {"N": nu, "mode": "unack", "ck": ck, "reject": True}, twin_share=0.05,
                          obligations=["success_indication", "write_rejected"]))
        specs.append(Spec(f"dest/ack/{ck}/write-rejection/N={na - 1}", "vf.harness.c01:h_dest",
                          {"N": na - 1, "mode": "ack", "ck": ck, "reject": True}, twin_share=0.02))
    # EOF first (Metadata late), then open events with write rejection: late steps of the deferred procedure
    specs.append(Spec(f"dest/ack/crc32/after-eof_first/write-rejection/N={3 if q else 4}", "vf.harness.c01:h_dest",
                      {"N": 3 if q else 4, "mode": "ack", "ck": "crc32", "reject": True, "prefix": "eof_first"},
                      twin_share=0.02))
    specs.append(Spec(f"dest/ack/crc32/after-eof_missing/N={3 if q else 4}", "vf.harness.c01:h_dest",
                      {"N": 3 if q else 4, "mode": "ack", "ck": "crc32", "prefix": "eof_missing"}, twin_share=0.02))
    # destination already present (file, or directory that already contains the file, possibly longer)
    for mode, shape in (("unack", "existing"), ("unack", "dir_existing"), ("ack", "dir_existing")):
        specs.append(Spec(f"dest/{mode}/crc32/{shape}/N=3", "vf.harness.c01:h_dest",
                          {"N": 3, "mode": mode, "ck": "crc32", "shape": shape}, twin_share=0.05,
                          obligations=["success_indication"]))
    for ck in ("null", "modular"):
        specs.append(Spec(f"dest/ack/{ck}/grid/N={na + 1}", "vf.harness.c01:h_dest",
                          {"N": na + 1, "mode": "ack", "ck": ck, "grid": True, "M": 2 if q else 3},
                          twin_share=0.02, obligations=["success_indication"]))
    t = 2 if q else 3
    for mode, pre in (("ack", "eof_acked"), ("ack", "sm3"), ("ack", "fin_rcvd"), ("unack", "sm3"),
                      ("unack", "fin_rcvd"), ("ack", "cancelled")):
        specs.append(Spec(f"sender/{mode}/after-{pre}/T={t}", "vf.harness.c01:h_sender",
                          {"T": t, "mode": mode, "prefix": pre}, twin_share=0.05))
    return specs


BOUNDS = {
    "quick": "receiver: every sequence of N=4 events over {Metadata, File Data with symbolic offset/length and symbolically good-or-corrupted payload (corruption index symbolic), EOF(no error), tick}, acknowledged (immediate/deferred NAK) and unacknowledged, closure on/off, CRC-32; with symbolic write rejection (PermissionError) per filestore write (N=4 unacknowledged, N=3 acknowledged, and N=3 after the prefix 'EOF first'); N=3 after the prefix 'Metadata, EOF with all data missing'; NULL and MODULAR checksum: acknowledged, grid-segmented file of at most 2 segments, loss/duplication/reordering only, N=5. Sender: six canonical prefixes + every sequence of T=2 events",
    "thorough": "N=5 everywhere (N=6 for NULL/MODULAR with 3 segments), CRC-32C as well, sender T=3",
}
OUTSIDE = ("delivered sequences longer than N (hence files that need more than N-2 File Data PDUs at the receiver); corruption of anything but File Data payload; "
           "real CRC collisions (the checksum is an abstract function that is injective on the instantiated points: the witness index, offset 0, every write end and every corruption index)")
FUNCTIONS = ["DestHandler.state_machine", "_handle_fd_pdu", "_handle_eof_pdu", "_handle_no_error_eof", "_checksum_verify", "_check_limit_handling",
             "_deferred_lost_segment_handling", "_lost_segment_handling", "_notice_of_completion", "_prepare_finished_pdu",
             "SourceHandler._handle_wait_for_finish", "SourceHandler._notice_of_completion"]
EXPLANATION = ("File content is an uninterpreted function C(source, index) -> byte; the destination file is the filestore's write log; "
               "'identical' is asserted at a symbolic witness index plus length; the file checksum is an abstract function with functionality "
               "(identical prefix => same token) and instantiated injectivity (same token => same length and identical at the instantiated points).")
ASSUMPTIONS = ["checksum abstraction as described (genuine collisions excluded, as the property states)",
               "the EOF PDU is the genuine sender's (size S, checksum of the first S source bytes); corruption hits File Data payload only",
               "NULL/MODULAR: no corruption, no write rejection, File Data PDUs are grid segments of the file (loss/duplication/reordering only)",
               "symbolic clock; in-memory filestore"]
MANIFEST = {
    "technique": "bounded symbolic execution (z3) of the real DestHandler/SourceHandler with abstract file content (uninterpreted byte function, witness index) and an abstract injective checksum",
    "design_ref": "DESIGN.md 7.1",
    "level_text": "Every event sequence up to length N (symbolic offsets, lengths, corruption flags and positions, write rejections, clock) is executed on the real receiver; whenever a successful Transaction-Finished indication or Finished PDU appears, z3 must show that the write log of the destination file equals the source at an arbitrary witness index and in length, assuming only that the checksum has no collision at the instantiated points. The sender part shows that a success report in acknowledged/closure mode only relays a received Finished PDU with the same three codes. Counterexamples are replayed with the file bytes the solver chose, real CRCs and serialisation.",
    "level_note": "Trusted: z3, symex proxies, in-memory filestore and checksum abstraction (2-5% of passing and all failing paths re-run concretely with real crcmod checksums). Bound: N events.",
}
