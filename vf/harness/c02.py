"""C02 -- every transfer over a fault-free link completes successfully in every mode (H-SYS, K=0)."""
from __future__ import annotations

from spacepackets.cfdp import ChecksumType, ConditionCode
from spacepackets.cfdp.pdu.finished import DeliveryCode, FileStatus

from vf import hsys, rigs, symex
from vf.explore import Spec
from vf.rigs import ACK, UNACK, Ids
from vf.symex import smin
from vf.world import World

CKTYPES = [ChecksumType.CRC_32, ChecksumType.CRC_32C, ChecksumType.NULL_CHECKSUM, ChecksumType.MODULAR]


def setup(ctx, w, M, id_w, seq_w, K=0, modes=(ACK, UNACK), cktypes=CKTYPES, limits=2, shapes=("file", "dir", "existing", "dir_existing"),
          faults=("deliver", "drop", "dup"), fixed=None, overrides=False, fault_table=None):
    fixed = fixed or {}
    ids = Ids(id_w, seq_w)
    mode = ctx.pick("mode", list(modes))
    closure = fixed.get("closure", None)
    if closure is None:
        closure = bool(ctx.choice("closure", 2))
    crc = fixed.get("crc")
    if crc is None:
        crc = bool(ctx.choice("crc", 2))
    ck = ctx.pick("cktype", list(cktypes))
    imm = bool(ctx.choice("imm", 2)) if mode == ACK else True
    shape = ctx.pick("shape", list(shapes))
    hdr = 4 + 2 * id_w + seq_w
    use_L = fixed.get("use_L")
    if use_L is None:
        use_L = bool(ctx.choice("has_seg_len", 2))
    P = ctx.int("P", hdr + 24, 4096)
    derived = P - hdr - 4 - (2 if crc else 0)
    L = ctx.int("L", 1, 4096) if use_L else None
    seg = smin(L, derived) if use_L else derived
    S = ctx.int("S", 0, 2**16)
    ctx.assume(S <= M * seg)
    dst_name = "/dst" if shape in ("dir", "dir_existing") else "/dst/file.bin"
    sysm = hsys.System(ctx, w, ids=ids, mode=mode, closure=closure, cktype=ck, crc=crc, imm=imm, seg_len=L,
                       max_packet_len=P, limits=limits, S=S, M=M, K=K, dst_name=dst_name, faults=faults,
                       fault_table=fault_table)
    if shape in ("dir", "dir_existing"):
        sysm.dst.fs.add_dir("/dst")
    if shape in ("existing", "dir_existing"):
        sysm.dst.fs.add_plain_file("/dst/file.bin", ctx.int("old_len", 0, 64))
    if overrides:
        # request-level mode / closure override the remote entity configuration
        pm = ctx.pick("put_mode", [None, ACK, UNACK])
        pc = ctx.pick("put_closure", [None, False, True])
        sysm.put_mode, sysm.put_closure = pm, pc
        if pm is not None:
            sysm.mode = mode = pm
        if pc is not None:
            sysm.closure = closure = pc
        if ctx.choice("with_options", 2):
            # every kind of Metadata option TLV (filestore request, fault-handler override, flow label, message)
            from vf.harness.c08 import put_options
            sysm.put_kwargs = put_options()
            ctx.covered("put_with_options")
    cfg = dict(mode=mode, closure=closure, ck=ck, crc=crc, imm=imm, shape=shape, S=S, seg=seg, P=P)
    return sysm, cfg


def success_oracle(ctx, w, sysm, cfg, x, done, prefix=""):
    ctx.prop(prefix + "no_api_call_raises", not sysm.exceptions,
             lambda: {"sig": f"{sysm.exceptions[0][0]}: {rigs.exc_sig(sysm.exceptions[0][1].exc)}", "trace": str(sysm.trace[-6:])[:600]})
    ctx.prop(prefix + "runs_to_completion", done,
             lambda: {"sig": f"not complete: source {sysm.src.h.step.name}, destination {sysm.dst.h.step.name}",
                      "trace": str(sysm.trace[-8:])[:900]})
    sfin = sysm.src.user.of("finished")
    dfin = sysm.dst.user.of("finished")
    ctx.prop(prefix + "one_finished_indication_per_side", len(sfin) == 1 and len(dfin) == 1,
             lambda: {"sig": f"indications: source {len(sfin)}, destination {len(dfin)}"})
    ctx.prop(prefix + "receiver_reports_success",
             dfin[0][2] == ConditionCode.NO_ERROR and dfin[0][3] == DeliveryCode.DATA_COMPLETE
             and dfin[0][4] == FileStatus.FILE_RETAINED,
             lambda: {"sig": f"receiver finished with {dfin[0][2:5]}"})
    ctx.prop(prefix + "sender_reports_success",
             sfin[0][2] == ConditionCode.NO_ERROR and sfin[0][3] == DeliveryCode.DATA_COMPLETE,
             lambda: {"sig": f"sender finished with {sfin[0][2:5]}"})
    ctx.prop(prefix + "both_idle", sysm.src.idle and sysm.dst.idle)
    if sysm.K == 0:
        # on a fault-free link the handlers themselves must finish the exchange: no PDU may be left
        # for the entity-level responder (that assumption belongs to C03 only)
        used = [t for t in sysm.trace if len(t) == 2 and str(t[1]).startswith("ack-inactive")]
        ctx.prop(prefix + "no_entity_level_response_needed", not used,
                 lambda: {"sig": f"{used[0][0]}: {used[0][1]}"})
    ctx.prop(prefix + "file_identical", sysm.identical(x), lambda: {"sig": "destination file differs from the source"})


def harness(ctx, M, id_w, seq_w, pace="const"):
    w = World(ctx, injective=True, nonzero_source=True)
    x = ctx.int("x", 0, 2**16)
    w.witness = x
    if pace == "const":
        sysm, cfg = setup(ctx, w, M, id_w, seq_w)
    elif pace == "overrides":
        sysm, cfg = setup(ctx, w, M, id_w, seq_w, cktypes=[ChecksumType.CRC_32], shapes=("file",),
                          fixed={"crc": False, "use_L": False}, overrides=True)
    else:
        sysm, cfg = setup(ctx, w, M, id_w, seq_w, cktypes=[ChecksumType.CRC_32], shapes=("file",))
    o = sysm.start()
    ctx.prop("put_accepted", o.exc is None and o.ret is True)
    if pace in ("const", "overrides"):
        ps, pd = ctx.choice("pace_src", 3), ctx.choice("pace_dst", 3)
        pacing = lambda who, r: ps if who == "src" else pd  # noqa: E731
    else:
        memo = {}

        def pacing(who, r):
            if r >= 3:
                return 0
            if (who, r) not in memo:
                memo[(who, r)] = ctx.choice(f"pace_{who}{r}", 2)
            return memo[(who, r)]
    done = sysm.run(M + 12, pacing=pacing)
    ctx.covered(f"mode={int(cfg['mode'])}")
    success_oracle(ctx, w, sysm, cfg, x, done)
    ctx.prop("no_fault_callback", not sysm.src.fh.ev and not sysm.dst.fh.ev,
             lambda: {"sig": f"fault callbacks {[(f[0], int(f[2])) for f in sysm.src.fh.ev + sysm.dst.fh.ev]}"})
    writes = {c[1] for c in sysm.dst.fs.calls if c[0] in ("write", "create", "truncate")}
    ctx.prop("resolved_destination_path", writes <= {"/dst/file.bin"}, lambda: {"sig": str(writes)})


def h_metadata_only(ctx, id_w, seq_w):
    w = World(ctx)
    ids = Ids(id_w, seq_w)
    mode = ctx.pick("mode", [ACK, UNACK])
    closure = bool(ctx.choice("closure", 2))
    sysm = hsys.System(ctx, w, ids=ids, mode=mode, closure=closure, S=0)
    sysm.src_name = None
    sysm.dst_name = None
    sysm.put_mode = ctx.pick("put_mode", [None, ACK, UNACK])
    sysm.put_closure = ctx.pick("put_closure", [None, False, True])
    if sysm.put_mode is not None:
        sysm.mode = sysm.put_mode
    ps, pd = ctx.choice("pace_src", 2), ctx.choice("pace_dst", 2)
    o = sysm.start()
    ctx.prop("put_accepted", o.exc is None and o.ret is True, lambda: {"sig": rigs.exc_name(o.exc)})
    done = sysm.run(10, pacing=lambda who, r: ps if who == "src" else pd)
    ctx.prop("no_api_call_raises", not sysm.exceptions,
             lambda: {"sig": f"{sysm.exceptions[0][0]}: {rigs.exc_sig(sysm.exceptions[0][1].exc)}"})
    ctx.prop("runs_to_completion", sysm.src.idle and sysm.dst.idle,
             lambda: {"sig": f"metadata only: source {sysm.src.h.step.name}, destination {sysm.dst.h.step.name}"})
    used = [t for t in sysm.trace if len(t) == 2 and str(t[1]).startswith("ack-inactive")]
    ctx.prop("no_entity_level_response_needed", not used,
             lambda: {"sig": f"metadata only: {used[0][0]}: {used[0][1]}"})
    ctx.prop("no_fault_callback", not sysm.src.fh.ev and not sysm.dst.fh.ev)
    ctx.prop("nothing_written", not [c for c in sysm.dst.fs.calls if c[0] in ("write", "create", "truncate", "delete")])


WIDTHS = {"quick": [(2, 2), (1, 1), (8, 4)], "thorough": [(i, s) for i in (1, 2, 4, 8) for s in (1, 2, 4)]}


def plan(tier):
    q = tier == "quick"
    specs = []
    for (iw, sw) in WIDTHS[tier]:
        m = (2 if q else 3) if (iw, sw) == (2, 2) else (1 if (q or (iw, sw) not in ((1, 1), (8, 4))) else 2)
        specs.append(Spec(f"fault-free/M={m}/w{iw}.{sw}", "vf.harness.c02:harness", {"M": m, "id_w": iw, "seq_w": sw},
                          twin_share=0.02, obligations=["mode=0", "mode=1"]))
    specs.append(Spec("fault-free/per-round-pacing/M=1/w2.2", "vf.harness.c02:harness",
                      {"M": 1, "id_w": 2, "seq_w": 2, "pace": "round"}, twin_share=0.02))
    specs.append(Spec("fault-free/request-overrides/M=1/w2.2", "vf.harness.c02:harness",
                      {"M": 1, "id_w": 2, "seq_w": 2, "pace": "overrides"}, twin_share=0.02,
                      obligations=["put_with_options"]))
    specs.append(Spec("metadata-only/w2.2", "vf.harness.c02:h_metadata_only", {"id_w": 2, "seq_w": 2}, twin_share=1.0))
    return specs


BOUNDS = {
    "quick": "fault-free FIFO link; mode x closure x 4 checksum types x PDU CRC flag x immediate/deferred NAK x destination given as file / existing directory / pre-existing file / directory already containing the file, max_file_segment_len None or symbolic, max_packet_len and file size symbolic with at most M=2 segments (widths (2,2)) / M=1 (widths (1,1),(8,4)); pacing: 0..2 extra packet-less state-machine calls per side before every delivery (constant per run), plus a run with an independent 0/1 choice per side in each of the first 3 rounds (CRC-32, plain file); a run with request-level overrides of mode and closure (None/each value; CRC-32, plain file); metadata-only put request with the same overrides and pacing 0/1",
    "thorough": "all 12 width pairs, M=3 for (2,2), M=2 for (1,1),(8,4), M=1 otherwise",
}
OUTSIDE = "more than M segments (the per-segment step is uniform, but that is an argument, not a verdict); byte-level serialisation is exercised on the concrete representative of sampled paths only; TLV options"
FUNCTIONS = ["SourceHandler.put_request/state_machine/get_next_packet (whole sender FSM)", "DestHandler.state_machine/get_next_packet (whole receiver FSM)",
             "acknowledge_inactive_eof_pdu", "get_packet_destination"]
EXPLANATION = "Closed system: both real handlers exchange deep-copied PDUs over FIFO queues; sizes and lengths are symbolic, configuration dimensions are solver-forked; content identity at a symbolic witness index."
ASSUMPTIONS = ["the surrounding entity acknowledges EOF / Finished PDUs of transactions the addressed handler already closed, as the library documents",
               "symbolic clock, advanced only when the system is quiescent", "in-memory filestores, abstract injective checksum"]
MANIFEST = {
    "technique": "bounded symbolic execution (z3) of the closed system real SourceHandler + real DestHandler over a fault-free link with symbolic sizes and solver-forked configuration and pacing",
    "design_ref": "DESIGN.md 7.2",
    "level_text": "Both real state machines run against each other over a FIFO link for every configuration combination and every pacing in the bound, with file size, segment length and packet length symbolic; on every feasible path: no API call raises, both handlers return to idle, each side issues exactly one successful Transaction-Finished indication, no fault callback fires, the destination file equals the source at an arbitrary witness index and in length, and only the resolved destination path is written.",
    "level_note": "Trusted: z3, symex proxies/stubs (2% of passing and all failing paths re-run concretely with real bytes, CRCs, Countdown and serialisation). Bound: M segments.",
}
