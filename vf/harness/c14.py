"""C14 -- declared faults take the effect configured in the fault-handler table."""
from __future__ import annotations

from cfdppy.handler.source import TransactionStep as SStep
from cfdppy.mib import DefaultFaultHandlerBase
from spacepackets.cfdp import ChecksumType, ConditionCode, FaultHandlerCode, TransactionId
from spacepackets.util import UnsignedByteField
from spacepackets.cfdp.pdu.finished import DeliveryCode

from vf import hdst, hsrc, rigs, symex
from vf.explore import Spec
from vf.hdst import DstScenario
from vf.rigs import ACK, UNACK, pdu_kind
from vf.world import FH, World

CODES = {"ignore": FaultHandlerCode.IGNORE_ERROR, "cancel": FaultHandlerCode.NOTICE_OF_CANCELLATION,
         "abandon": FaultHandlerCode.ABANDON_TRANSACTION}
CC = ConditionCode


def judge(ctx, sc, o, cond, code, tid, later, sender=False):
    """o = the call in which the fault is expected to be declared; later() runs further calls"""
    name = cond.name
    mine = [f for f in o.faults if f[2] == cond]
    others = [f for f in o.faults if f[2] != cond]
    ctx.covered(f"declared:{name}:{code}")
    ctx.prop("no_internal_error_on_fault", o.exc is None,
             lambda: {"sig": f"{name}/{code}: {rigs.exc_sig(o.exc)}"})
    ctx.prop("callback_fires_once", len(mine) == 1,
             lambda: {"sig": f"{name}/{code}: {len(mine)} callbacks for one declaration"})
    ctx.prop("callback_kind_is_table_entry", mine[0][0] == code,
             lambda: {"sig": f"{name}/{code}: callback {mine[0][0]}"})
    ctx.prop("callback_transaction_id", mine[0][1] == tid, lambda: {"sig": f"{name}/{code}: id {mine[0][1]}"})
    ctx.prop("callback_reports_current_progress", mine[0][3] == o.progress0,
             lambda: {"sig": f"{name}/{code}: progress in the callback differs from the handler's progress"})
    fin = [e for e in o.ind if e[0] == "finished"]
    if code == "ignore":
        ctx.prop("ignore_keeps_transaction_running", (not sc.rig.idle) and sc.rig.h.transaction_id == tid
                 and not any(e[2] == cond for e in fin),
                 lambda: {"sig": f"{name}/ignore: transaction did not continue"})
        return
    if code == "abandon":
        ctx.prop("abandon_goes_idle", sc.rig.idle, lambda: {"sig": f"{name}/abandon: step {sc.rig.h.step}"})
        ctx.prop("abandon_emits_nothing", len(o.pdus) == 0, lambda: {"sig": f"{name}/abandon: {o.kinds()}"})
        ctx.prop("abandon_leaves_nothing_pending", not sc.rig.h.packets_ready,
                 lambda: {"sig": f"{name}/abandon: idle handler claims pending PDUs"})
        ctx.prop("abandon_no_indication", len(fin) == 0, lambda: {"sig": f"{name}/abandon: finished indication"})
        for o2 in later(2):
            ctx.prop("abandon_stays_silent", o2.exc is None and not o2.pdus and not o2.ind and not o2.faults,
                     lambda: {"sig": f"{name}/abandon: activity after abandon {rigs.exc_name(o2.exc)} {o2.kinds()}"})
        return
    # notice of cancellation: the condition code reaches user and peer
    calls = [o] + later(2)
    ind = [e for c in calls for e in c.ind if e[0] == "finished"]
    pdus = [p for c in calls for p in c.pdus]
    for c in calls:
        ctx.prop("no_internal_error_on_fault", c.exc is None,
                 lambda: {"sig": f"{name}/{code}: {rigs.exc_sig(c.exc)}"})
    if sender:
        eofs = [p for p in pdus if pdu_kind(p) == "EOF"]
        ctx.prop("cancel_reaches_peer", len(eofs) >= 1 and eofs[0].condition_code == cond,
                 lambda: {"sig": f"{name}/cancel: no EOF with that condition"})
        if sc.mode != ACK:
            # unacknowledged sender: the notice of completion follows at once, with the same condition
            ctx.prop("cancel_reaches_user", len(ind) >= 1 and ind[0][2] == cond and ind[0][1] == tid,
                     lambda: {"sig": f"{name}/cancel: sender indication {[(int(e[2])) for e in ind]}"})
        return
    ctx.prop("cancel_reaches_user", len(ind) >= 1 and ind[0][2] == cond and ind[0][1] == tid,
             lambda: {"sig": f"{name}/cancel: indication {[(int(e[2])) for e in ind]}"})
    if sc.mode == ACK or sc.closure:
        fins = [p for p in pdus if pdu_kind(p) == "FIN"]
        ctx.prop("cancel_reaches_peer", len(fins) >= 1 and fins[0].condition_code == cond,
                 lambda: {"sig": f"{name}/cancel: Finished PDU {[int(p.condition_code) for p in fins]}"})


def _later(sc):
    def run(n):
        out = []
        for _ in range(n):
            out.append(sc.tick0())
        return out
    return run


def h_dest(ctx, scenario, code):
    w = World(ctx, injective=True, nonzero_source=True)
    x = ctx.int("x", 0, hdst.OMAX)
    w.witness = x
    cond = {"size_after_eof": CC.FILE_SIZE_ERROR, "size_at_eof": CC.FILE_SIZE_ERROR,
            "checksum_unack": CC.FILE_CHECKSUM_FAILURE, "checksum_ack": CC.FILE_CHECKSUM_FAILURE,
            "filestore": CC.FILESTORE_REJECTION, "filestore_late_metadata": CC.FILESTORE_REJECTION, "check_limit": CC.CHECK_LIMIT_REACHED,
            "nak_limit": CC.NAK_LIMIT_REACHED, "ack_limit": CC.POSITIVE_ACK_LIMIT_REACHED}[scenario]
    mode = UNACK if scenario in ("checksum_unack", "check_limit") else (
        ACK if scenario in ("checksum_ack", "nak_limit", "ack_limit", "filestore_late_metadata")
        else ctx.pick("mode", [ACK, UNACK]))
    closure = bool(ctx.choice("closure", 2))
    limit = ctx.int("limit", 1, 3)
    table = {cond: CODES[code]}
    if scenario in ("check_limit",):
        pass
    sc = DstScenario(ctx, w, mode=mode, cktype=ChecksumType.CRC_32, closure=closure,
                     rig_kwargs={"fault_table": table, "check_limit": limit, "nak_limit": limit,
                                 "ack_limit": limit, "immediate_nak": False})
    S = sc.S
    ctx.assume(S <= hdst.LMAX)
    fs = sc.rig.fs
    later = _later(sc)
    tid = sc.tid

    def ok(o):
        hdst.end_if_other_property(ctx, o, owner="C14-setup") if False else None
        if o.exc is not None:
            ctx.prop("no_internal_error_on_fault", False,
                     lambda: {"sig": f"{cond.name}/{code}: setup {rigs.exc_sig(o.exc)}"})
        return o

    if scenario == "filestore":
        fs.reject = lambda kind, p: PermissionError if kind in ("create", "truncate") else None
        o = sc.md()
        return judge(ctx, sc, o, cond, code, tid, later)
    if scenario == "filestore_late_metadata":
        # acknowledged: EOF first, deferred procedure running, the re-sent Metadata hits the rejection
        fs.reject = lambda kind, p: PermissionError if kind in ("create", "truncate") else None
        ok(sc.eof())
        ok(sc.tick0())
        o = sc.md()
        return judge(ctx, sc, o, cond, code, tid, later)
    ok(sc.md())
    if scenario == "size_after_eof":
        ctx.assume(S >= 2)
        ok(sc.fd(0, S - 2))
        o = sc.eof(size=S - 1, checksum=w.checksum(ChecksumType.CRC_32, S - 1))
        if sc.rig.idle or any(e[0] == "finished" for e in o.ind):
            ctx.end("infeasible")
        ok(o)
        ok(sc.tick0())
        if sc.rig.idle:
            ctx.end("infeasible")
        o = sc.fd(S - 2, 2)  # reaches one byte beyond the EOF file size
        return judge(ctx, sc, o, cond, code, tid, later)
    if scenario == "size_at_eof":
        ctx.assume(S >= 1)
        ok(sc.fd(0, S))
        o = sc.eof(size=S - 1, checksum=w.checksum(ChecksumType.CRC_32, S - 1))
        return judge(ctx, sc, o, cond, code, tid, later)
    if scenario == "checksum_unack":
        ctx.assume(S >= 1)
        o = sc.eof()  # no data at all
        return judge(ctx, sc, o, cond, code, tid, later)
    if scenario == "checksum_ack":
        ctx.assume(S >= 1)
        ok(sc.fd(0, S, corrupt=True, jname="j"))
        ok(sc.eof())
        o = sc.tick0()
        return judge(ctx, sc, o, cond, code, tid, later)
    if scenario == "check_limit":
        ctx.assume(S >= 1)
        ok(sc.eof())
        for k in range(1, 4):
            o = sc.tick(f"dt{k}")
            ctx.assume(sc.events[-1][1] >= 1)
            if k == limit:
                return judge(ctx, sc, o, cond, code, tid, later)
            ok(o)
        ctx.end("infeasible")
    if scenario == "nak_limit":
        ctx.assume(S >= 1)
        ok(sc.eof())
        ok(sc.tick0())  # deferred procedure starts, first NAK sequence
        for k in range(1, 4):
            o = sc.tick(f"dt{k}")
            ctx.assume(sc.events[-1][1] >= 1)
            if k == limit:
                return judge(ctx, sc, o, cond, code, tid, later)
            ok(o)
        ctx.end("infeasible")
    if scenario == "ack_limit":
        ok(sc.fd(0, S))
        ok(sc.eof())
        o = ok(sc.tick0())
        if "FIN" not in o.kinds():
            ctx.end("infeasible")
        for k in range(1, 4):
            o = sc.tick(f"dt{k}")
            ctx.assume(sc.events[-1][1] >= 1)
            if k == limit:
                return judge(ctx, sc, o, cond, code, tid, later)
            ok(o)
        ctx.end("infeasible")
    raise symex.HarnessError(scenario)


def h_src(ctx, scenario, code):
    w = World(ctx)
    cond = {"ack_limit": CC.POSITIVE_ACK_LIMIT_REACHED, "check_limit": CC.CHECK_LIMIT_REACHED}[scenario]
    mode = ACK if scenario == "ack_limit" else UNACK
    limit = ctx.int("limit", 1, 3)
    sc = hsrc.SrcScenario(ctx, w, mode=mode, closure=True, M=2,
                          rig_kwargs={"fault_table": {cond: CODES[code]}, "ack_limit": limit})
    # the put request may carry a fault-handler override for the very condition (forwarded to the peer
    # in the Metadata PDU): the local outcome is still decided by the local entity's table
    ov = ctx.pick("override", [None, "ignore", "cancel", "abandon"])
    if ov is not None:
        from spacepackets.cfdp import FaultHandlerOverrideTlv
        ctx.covered("override_in_request")
        sc.put(overrides=[FaultHandlerOverrideTlv(cond, CODES[ov])])
    else:
        sc.put()
    o = sc.sm()
    sc.remember_conf()
    tid = sc.rig.h.transaction_id
    want = SStep.WAITING_FOR_EOF_ACK if mode == ACK else SStep.WAITING_FOR_FINISHED
    for _ in range(5):
        if sc.rig.h.step == want:
            break
        o = sc.sm()
        hsrc.end_if_other_property(ctx, o)
    if sc.rig.h.step != want:
        ctx.end("infeasible")

    def later(n):
        return [sc.sm() for _ in range(n)]
    for k in range(1, 4):
        o = sc.tick(f"dt{k}")
        ctx.assume(sc.events[-1][1] >= 1)
        if mode == UNACK or k == limit:
            return judge(ctx, sc, o, cond, code, tid, later, sender=True)
        if o.exc is not None:
            ctx.prop("no_internal_error_on_fault", False, lambda: {"sig": rigs.exc_sig(o.exc)})
    ctx.end("infeasible")


OPEN_CONDS = [CC.FILE_SIZE_ERROR, CC.FILE_CHECKSUM_FAILURE, CC.CHECK_LIMIT_REACHED, CC.NAK_LIMIT_REACHED,
              CC.POSITIVE_ACK_LIMIT_REACHED, CC.FILESTORE_REJECTION]


def h_open(ctx, N, mode, prefix):
    """arbitrary event sequences with one table entry overridden: whatever fault is declared anywhere,
    the callback kind is the table entry, it fires once per call and condition, and abandon is final"""
    w = World(ctx, injective=True, nonzero_source=True)
    w.witness = ctx.int("x", 0, hdst.OMAX)
    m = ACK if mode == "ack" else UNACK
    cond = ctx.pick("cond", OPEN_CONDS)
    code = ctx.pick("code", ["ignore", "cancel", "abandon"])
    sc = DstScenario(ctx, w, mode=m, cktype=ChecksumType.CRC_32, closure=bool(ctx.choice("closure", 2)),
                     rig_kwargs={"fault_table": {cond: CODES[code]}, "check_limit": 1, "nak_limit": 1,
                                 "ack_limit": 1, "immediate_nak": True})
    table = sc.rig.fh
    default_kind = {FaultHandlerCode.IGNORE_ERROR: "ignore", FaultHandlerCode.NOTICE_OF_CANCELLATION: "cancel",
                    FaultHandlerCode.ABANDON_TRANSACTION: "abandon", FaultHandlerCode.NOTICE_OF_SUSPENSION: "suspend"}
    for o in sc.run_prefix(prefix):
        hdst.end_if_other_property(ctx, o)
    alphabet = ["MD", "FDX", "EOF", "TICK", "CANCEL"] + (["ACKFIN"] if m == ACK else [])
    cancel_exchange = False
    for i in range(N):
        was_tid = sc.rig.h.transaction_id
        o = sc.step(alphabet)
        if o.exc is not None and o.faults and type(o.exc).__name__ not in hdst.DEST_DOCUMENTED:
            # an internal error in a call in which a fault was declared belongs to the fault handling
            ctx.prop("no_internal_error_on_fault", False,
                     lambda: {"sig": f"open: {o.faults[0][2].name}/{o.faults[0][0]}: internal error in the call that declared the fault"})
        hdst.end_if_other_property(ctx, o)
        seen = {}
        for f in o.faults:
            want = default_kind[table.get_fault_handler(f[2])]
            ctx.covered(f"open:{f[2].name}:{f[0]}")
            if cancel_exchange and f[0] == "abandon":
                # fault during the Finished(cancel) exchange: abandonment is required (C04) - and it is the
                # only callback for that fault
                ctx.prop("no_other_callback_for_that_fault", len(o.faults) == 1,
                         lambda: {"sig": f"open: abandonment during the Finished(cancel) exchange plus "
                                         f"{[(g[0], g[2].name) for g in o.faults if g is not f]}"})
                continue
            ctx.prop("callback_kind_is_table_entry", f[0] == want,
                     lambda: {"sig": f"open: {f[2].name} configured {want}, callback {f[0]}"})
            ctx.prop("callback_transaction_id", f[1] == was_tid, lambda: {"sig": f"open: {f[2].name} id {f[1]}"})
            if f[0] == "abandon":
                # PDUs queued earlier in the same call (before the fault) are not the abandonment's doing
                ctx.prop("abandon_goes_idle", sc.rig.idle and not any(e[0] == "finished" for e in o.ind)
                         and not any(rigs.pdu_kind(p) == "FIN" for p in o.pdus),
                         lambda: {"sig": f"open: {f[2].name}/abandon not silent"})
                # ... but once they are retrieved (the rig drains the queue) the idle handler has nothing pending
                ctx.prop("abandon_leaves_nothing_pending", not sc.rig.h.packets_ready,
                         lambda: {"sig": f"open: {f[2].name}/abandon: idle handler claims pending PDUs"})
        for e in o.ind:
            ctx.prop("indication_has_transaction_id", e[1] is not None,
                     lambda: {"sig": f"open: {e[0]} indication without transaction id"})
        if any(rigs.pdu_kind(p) == "FIN" and p.condition_code != CC.NO_ERROR for p in o.pdus):
            cancel_exchange = True
        if sc.rig.idle:
            cancel_exchange = False


def set_handler_refuses():
    """configuration API: conditions outside the table are refused (concrete loop over all codes)"""
    class F(DefaultFaultHandlerBase):
        def notice_of_suspension_cb(self, *a): pass
        def notice_of_cancellation_cb(self, *a): pass
        def abandoned_cb(self, *a): pass
        def ignore_cb(self, *a): pass
    bad = []
    n = 0
    # the documented table (CFDP fault conditions); independent of what the object answers when asked
    table = {CC.CANCEL_REQUEST_RECEIVED, CC.POSITIVE_ACK_LIMIT_REACHED, CC.KEEP_ALIVE_LIMIT_REACHED,
             CC.INVALID_TRANSMISSION_MODE, CC.FILE_CHECKSUM_FAILURE, CC.FILE_SIZE_ERROR, CC.FILESTORE_REJECTION,
             CC.NAK_LIMIT_REACHED, CC.INACTIVITY_DETECTED, CC.CHECK_LIMIT_REACHED, CC.UNSUPPORTED_CHECKSUM_TYPE}
    for c in CC:
        inside = c in table
        for read_first in (False, True):
            # an application may read the table (e.g. to log it) before configuring it
            f = F()
            if read_first:
                for c2 in CC:
                    f.get_fault_handler(c2)
            try:
                f.report_fault(TransactionId(UnsignedByteField(1, 1), UnsignedByteField(1, 1)), c, 0)
                if not inside:
                    bad.append(f"report_fault accepted {c.name}" + (" after the table was read" if read_first else ""))
            except ValueError:
                if inside:
                    bad.append(f"report_fault refused {c.name}")
        f = F()
        for c2 in CC:
            f.get_fault_handler(c2)
        if (f.get_fault_handler(c) is not None) != inside:
            bad.append(f"get_fault_handler({c.name}) disagrees with the documented table")
        for code in FaultHandlerCode:
            n += 1
            try:
                f.set_handler(c, code)
                if not inside:
                    bad.append(f"set_handler accepted {c.name}")
                elif f.get_fault_handler(c) != code:
                    bad.append(f"set_handler({c.name},{code.name}) not stored")
            except ValueError:
                if inside:
                    bad.append(f"set_handler refused {c.name}")
    return {"ok": not bad, "detail": f"{n} (condition, handler code) pairs; " + ("; ".join(bad[:3]) or "all as documented")}


def extra_checks(tier, seed):
    return [("set_handler_refuses_foreign_conditions", set_handler_refuses)]


DEST_SCEN = ["size_after_eof", "size_at_eof", "checksum_unack", "checksum_ack", "filestore", "filestore_late_metadata", "check_limit",
             "nak_limit", "ack_limit"]


def plan(tier):
    specs = []
    for sc in DEST_SCEN:
        for code in CODES:
            cname = {"size_after_eof": "FILE_SIZE_ERROR", "size_at_eof": "FILE_SIZE_ERROR",
                     "checksum_unack": "FILE_CHECKSUM_FAILURE", "checksum_ack": "FILE_CHECKSUM_FAILURE",
                     "filestore": "FILESTORE_REJECTION", "filestore_late_metadata": "FILESTORE_REJECTION",
                     "check_limit": "CHECK_LIMIT_REACHED",
                     "nak_limit": "NAK_LIMIT_REACHED", "ack_limit": "POSITIVE_ACK_LIMIT_REACHED"}[sc]
            specs.append(Spec(f"dest/{sc}/{code}", "vf.harness.c14:h_dest", {"scenario": sc, "code": code},
                              twin_share=0.3, obligations=[f"declared:{cname}:{code}"]))
    q = tier == "quick"
    for mode, pre, n in (("ack", "none", 3 if q else 4), ("ack", "delivered", 2 if q else 3),
                         ("ack", "eof_missing", 2 if q else 3), ("unack", "none", 3 if q else 4),
                         ("unack", "eof_missing", 2 if q else 3)):
        specs.append(Spec(f"dest-open/{mode}/after-{pre}/N={n}", "vf.harness.c14:h_open",
                          {"N": n, "mode": mode, "prefix": pre}, twin_share=0.02))
    for sc in ("ack_limit", "check_limit"):
        for code in CODES:
            specs.append(Spec(f"src/{sc}/{code}", "vf.harness.c14:h_src", {"scenario": sc, "code": code},
                              twin_share=0.3, obligations=["override_in_request"]))
    return specs


BOUNDS = {
    "quick": "8 receiver scenarios (file size error after and at EOF, checksum failure unacknowledged/acknowledged, filestore rejection at file creation (Metadata first, and Metadata arriving late after the EOF), check limit, NAK limit, positive ACK limit of the Finished PDU) and 2 sender scenarios (positive ACK limit of the EOF, check limit with closure; put request without and with a fault-handler override TLV for the condition) x handler code {ignore, cancel, abandon}; plus open receiver runs: one table entry overridden (6 conditions x 3 codes), limits 1, canonical prefix (none / delivered / EOF with missing data) followed by every sequence of N=3 (no prefix) / N=2 events incl. possibly corrupted File Data; file size, limits in [1,3], clock, mode/closure (where free) symbolic; set_handler over all condition x handler code pairs",
    "thorough": "same space; adds the cross-solver pass",
}
OUTSIDE = "suspension (unimplemented in the library); faults reached from histories other than the scripted scenarios; the cancel request, which the handlers do not route through the fault handler table; faults declared while an EOF(cancel) exchange is in progress (C04)"
FUNCTIONS = ["DestHandler._declare_fault", "_notice_of_cancellation", "_abandon_transaction", "_checksum_verify", "_handle_no_error_eof", "_handle_fd_pdu", "_init_vfs_handling",
             "_check_limit_handling", "_deferred_lost_segment_handling", "_handle_positive_ack_procedures", "SourceHandler._declare_fault", "SourceHandler._notice_of_cancellation",
             "SourceHandler._abandon_transaction", "DefaultFaultHandlerBase.report_fault/set_handler"]
EXPLANATION = "Each scenario drives the real handler to the declaration site with symbolic sizes/limits/clock; the table entry of the declared condition is the parameter."
ASSUMPTIONS = ["in-memory filestore; creation rejection = PermissionError", "symbolic clock", "abstract checksum as in C01"]
MANIFEST = {
    "technique": "bounded symbolic execution (z3) of the real handlers through every fault declaration site x handler code, with symbolic sizes, limits and clock",
    "design_ref": "DESIGN.md 7.14",
    "level_text": "Every (declaration site, handler code) combination is reached on at least one feasible path (coverage obligation) and on all paths of the scenario z3/the oracle require: exactly one callback of the configured kind with the transaction id, no internal exception, and the configured consequence - ignore: same transaction continues; cancel: condition code in Transaction-Finished and Finished PDU / EOF; abandon: idle at once, nothing emitted, no later indication. set_handler is checked over all condition x code pairs.",
    "level_note": "Trusted: z3, symex proxies/stubs (30% of passing and all failing paths re-run concretely). The histories leading to a declaration are scripted, not arbitrary.",
}
