"""C10 -- handlers fail only with protocol exceptions and only when the caller is at fault."""
from __future__ import annotations

from spacepackets.cfdp import ChecksumType

from vf import hdst, hsrc, rigs
from vf.explore import Spec
from vf.hdst import DstScenario
from vf.rigs import ACK, UNACK
from vf.world import World

STATE_EVENTS = {ACK: ["MD", "FD", "EOF", "EOFC", "ACKFIN", "TICK", "CANCEL"],
                UNACK: ["MD", "FD", "EOF", "EOFC", "TICK", "CANCEL"]}
LAST_ONLY = ["PROMPT", "FOREIGN_FIN", "FOREIGN_NAK", "FOREIGN_KA", "FOREIGN_ACKEOF", "WRONGDIR",
             "WRONGDEST", "UNKNOWNSRC", "CANCEL_OTHER", "ACKFIN"]
MUST_REJECT = {"FOREIGN_FIN", "FOREIGN_NAK", "FOREIGN_KA", "FOREIGN_ACKEOF", "WRONGDIR", "WRONGDEST",
               "UNKNOWNSRC"}


def snapshot(rig):
    h = rig.h
    return (h.state, h.step, h.progress, len(h._pdus_to_be_sent), h.transaction_id,
            len(rig.fs.calls), h.file_size)


def judge_dest_call(ctx, o, pre, post, kind):
    name = rigs.exc_name(o.exc)
    if o.exc is not None:
        ctx.prop("only_documented_exceptions", name in hdst.DEST_DOCUMENTED,
                 lambda: {"sig": rigs.exc_sig(o.exc), "step": o.step0.name, "event": str(o.call),
                          "message": str(o.exc)[:120]})
        if name == "UnretrievedPdusToBeSent":
            ctx.prop("unretrieved_only_if_queued", o.queue0 > 0,
                     lambda: {"sig": rigs.exc_sig(o.exc), "step": o.step0.name, "event": str(o.call)})
        elif name in rigs.ADMISSION_DEST:
            ctx.covered("admission:" + name)
            same = (pre[0] == post[0] and pre[1] == post[1] and pre[3] == post[3]
                    and pre[4] == post[4] and pre[5] == post[5] and len(o.pdus) == 0)
            ctx.prop("rejected_pdu_changes_nothing", same,
                     lambda: {"sig": f"{name}@{o.step0.name}", "pre": str(pre), "post": str(post)})
            ctx.prop("rejected_pdu_keeps_progress", pre[2] == post[2])
    if kind in MUST_REJECT:
        ctx.prop("foreign_pdu_is_rejected", name in rigs.ADMISSION_DEST,
                 lambda: {"sig": f"{kind} -> {name}"})


def h_dest(ctx, N, mode, imm, prefix="none", limits=2, pdu_dt=True):
    w = World(ctx)
    mode = ACK if mode == "ack" else UNACK
    sc = DstScenario(ctx, w, mode=mode, cktype=ChecksumType.CRC_32,
                     closure=bool(ctx.choice("closure", 2)),
                     rig_kwargs={"immediate_nak": imm, "ack_limit": limits, "nak_limit": limits,
                                 "check_limit": limits})
    if prefix != "none":
        # canonical prefix into the late steps; afterwards PDUs may arrive together with a timer expiry
        for o in sc.run_prefix(prefix):
            pre = post = None
            judge_dest_call(ctx, o, snapshot(sc.rig), snapshot(sc.rig), "PREFIX")
        sc.pdu_dt = pdu_dt
    for i in range(N):
        alphabet = STATE_EVENTS[mode] + (LAST_ONLY if i == N - 1 else [])
        pre = snapshot(sc.rig)
        o = sc.step(alphabet)
        post = snapshot(sc.rig)
        judge_dest_call(ctx, o, pre, post, sc.events[-1][0] if sc.events[-1][0] != "FOREIGN"
                        else "FOREIGN_" + sc.events[-1][1])
        ctx.covered("step:" + o.step1.name)


SRC_STATE = {ACK: ["SM", "TICK", "NAK", "ACKEOF", "FIN", "KA", "CANCEL"],
             UNACK: ["SM", "TICK", "FIN", "CANCEL"]}
SRC_LAST = ["PUT", "CANCEL_OTHER", "WRONGSEQ", "WRONGSEQLOW", "WRONGSRC", "WRONGDST", "WRONGDIR", "FOREIGN_MD",
            "FOREIGN_EOF", "FOREIGN_PROMPT", "FOREIGN_FD", "FOREIGN_ACKFIN", "NAK", "KA", "ACKEOF"]
SRC_MUST_REJECT = {"WRONGSEQ", "WRONGSEQLOW", "WRONGSRC", "WRONGDST", "WRONGDIR", "FOREIGN_MD", "FOREIGN_EOF",
                   "FOREIGN_PROMPT", "FOREIGN_FD", "FOREIGN_ACKFIN"}


def judge_src_call(ctx, o, pre, post, kind):
    name = rigs.exc_name(o.exc)
    if o.exc is not None:
        ctx.prop("only_documented_exceptions", name in hsrc.SRC_DOCUMENTED,
                 lambda: {"sig": rigs.exc_sig(o.exc), "step": o.step0.name, "event": str(o.call),
                          "message": str(o.exc)[:120]})
        if name == "UnretrievedPdusToBeSent":
            ctx.prop("unretrieved_only_if_queued", o.queue0 > 0,
                     lambda: {"sig": rigs.exc_sig(o.exc), "step": o.step0.name, "event": str(o.call)})
        elif name in rigs.ADMISSION_SRC:
            ctx.covered("admission:" + name)
            same = (pre[0] == post[0] and pre[1] == post[1] and pre[3] == post[3]
                    and pre[4] == post[4] and pre[5] == post[5] and len(o.pdus) == 0)
            ctx.prop("rejected_pdu_changes_nothing", same,
                     lambda: {"sig": f"{name}@{o.step0.name}", "pre": str(pre), "post": str(post)})
            ctx.prop("rejected_pdu_keeps_progress", pre[2] == post[2])
    if kind in SRC_MUST_REJECT:
        ctx.prop("foreign_pdu_is_rejected", name in rigs.ADMISSION_SRC,
                 lambda: {"sig": f"{kind} -> {name}"})


SRC_PREFIXES = {
    "md": [], "sm1": ["SM"], "sm2": ["SM", "SM"], "sm3": ["SM", "SM", "SM"],
    "eof_acked": ["SM", "SM", "SM", "ACKEOF"], "fin_rcvd": ["SM", "SM", "SM", "ACKEOF", "FIN"],
    "cancelled": ["SM", "CANCEL"], "retx": ["SM", "NAK"], "eof_timeout": ["SM", "SM", "SM", "TICK"],
}


def h_src(ctx, T, mode, prefix, nofile=False):
    """canonical prefix (drives the handler into each step) followed by T arbitrary events"""
    w = World(ctx)
    mode = ACK if mode == "ack" else UNACK
    sc = hsrc.SrcScenario(ctx, w, mode=mode, closure=bool(ctx.choice("closure", 2)), M=2)
    if nofile:
        from spacepackets.cfdp import MessageToUserTlv
        o = sc.put(src=None, dst=None, msgs=[MessageToUserTlv(b"hello")])  # metadata-only request
    else:
        o = sc.put()
    ctx.prop("put_accepted", o.exc is None and o.ret is True, lambda: {"sig": rigs.exc_name(o.exc)})
    o = sc.sm()  # transaction start, Metadata PDU
    ctx.prop("first_call_ok", o.exc is None, lambda: {"sig": rigs.exc_sig(o.exc)})
    sc.remember_conf()
    pre_events = SRC_PREFIXES[prefix]
    for i in range(len(pre_events) + T):
        if i < len(pre_events):
            alphabet = [pre_events[i]]
            if mode == UNACK and pre_events[i] in ("NAK", "ACKEOF"):
                alphabet = ["SM"]
        else:
            alphabet = SRC_STATE[mode] + (SRC_LAST if i == len(pre_events) + T - 1 else [])
        pre = snapshot(sc.rig)
        o = sc.step(alphabet)
        post = snapshot(sc.rig)
        ev = sc.events[-1]
        judge_src_call(ctx, o, pre, post, ev[0] if ev[0] != "FOREIGN" else "FOREIGN_" + ev[1])
        ctx.covered("step:" + o.step1.name)


def plan(tier):
    n = 4 if tier == "quick" else 5
    specs = []
    for mode in ("ack", "unack"):
        for imm in ((True, False) if mode == "ack" else (True,)):
            nn = n if (tier == "quick" or imm) else n - 1
            specs.append(Spec(f"dest/{mode}/imm={imm}/N={nn}", "vf.harness.c10:h_dest",
                              {"N": nn, "mode": mode, "imm": imm}, twin_share=0.05 if tier == "quick" else 0.01))
    # late steps, PDU arrival racing with timer expiry, limits 1 and 2
    for mode, pre in (("ack", "delivered"), ("ack", "eof_missing"), ("ack", "eof_first"), ("unack", "eof_missing")):
        for lim in (1, 2):
            specs.append(Spec(f"dest/{mode}/after-{pre}/limits={lim}/N={n - 2}", "vf.harness.c10:h_dest",
                              {"N": n - 2, "mode": mode, "imm": True, "prefix": pre, "limits": lim},
                              twin_share=0.05))
    # File Data first (symbolic offset and length, possibly empty), then four open events
    specs.append(Spec("dest/ack/after-fd_first/N=4", "vf.harness.c10:h_dest",
                      {"N": 4, "mode": "ack", "imm": True, "prefix": "fd_first", "limits": 2, "pdu_dt": False},
                      twin_share=0.02))
    t = 2 if tier == "quick" else 3
    for mode in ("ack", "unack"):
        for pre in SRC_PREFIXES:
            if mode == "unack" and pre in ("retx", "eof_timeout", "eof_acked"):
                continue
            specs.append(Spec(f"src/{mode}/after-{pre}/T={t}", "vf.harness.c10:h_src",
                              {"T": t, "mode": mode, "prefix": pre}, twin_share=0.05))
        for pre in ("md", "sm1"):
            specs.append(Spec(f"src/{mode}/metadata-only/after-{pre}/T={t}", "vf.harness.c10:h_src",
                              {"T": t, "mode": mode, "prefix": pre, "nofile": True}, twin_share=0.05))
    return specs


BOUNDS = {
    "quick": "destination: after the canonical prefixes delivered / EOF with missing data / EOF first (limits 1 and 2) every sequence of N=2 events in which each PDU may arrive together with a timer expiry (clock advance 0..2 before the delivery); and from idle every sequence of N=4 events over {Metadata, File Data (offset<=2^20, length<=4000 symbolic), EOF, EOF(cancel, symbolic size), ACK(Finished), tick (dt 0..3), cancel request} plus, in last position, Prompt / Finished / NAK / Keep-Alive / ACK(EOF) / wrong direction / wrong destination id / unknown source id / cancel of another id; acknowledged (immediate and deferred NAK) and unacknowledged, closure on/off. Source: 9 canonical prefixes (one per reachable step) followed by every sequence of T=2 events over {no packet, tick, NAK (1 symbolic request), ACK(EOF), Finished, Keep-Alive, cancel} plus in last position put request / wrong sequence number / wrong ids / wrong direction / Metadata / EOF / Prompt / File Data / ACK(Finished); file of at most 2 segments; the same from the first two prefixes for a metadata-only put request (no file)",
    "thorough": "destination N=5, source T=3",
}
OUTSIDE = "longer sequences; fault-handler codes other than the defaults (C14); TLV options; large-file PDUs; PDUs are always drained between calls, so the positive direction of the unretrieved-PDU guard is not exercised"
FUNCTIONS = ["DestHandler.state_machine", "DestHandler.cancel_request", "DestHandler._check_inserted_packet", "all private DestHandler step functions reached (see coverage tags)",
             "SourceHandler.state_machine", "SourceHandler.put_request", "SourceHandler.cancel_request", "SourceHandler._check_inserted_packet", "LostSegmentTracker.*"]
EXPLANATION = "Open-environment harness: the event sequence itself is a solver-forked variable, PDU numeric fields stay symbolic."
ASSUMPTIONS = ["PDUs are well-formed spacepackets objects; all emitted PDUs are retrieved between calls",
               "symbolic clock: time advances only between API calls; one timer interval = 1 unit",
               "default fault handler table", "in-memory VirtualFilestore that never rejects an operation"]
MANIFEST = {
    "technique": "bounded symbolic execution (z3) of both real handlers over all event sequences of bounded length with symbolic PDU fields",
    "design_ref": "DESIGN.md 7.10",
    "level_text": "Both real state machines are executed on every event sequence up to the stated length (events solver-forked, offsets/lengths/sizes/clock symbolic); after every API call the oracle requires: no exception outside the library's protocol exceptions, UnretrievedPdusToBeSent only with a non-empty queue at entry, and an admission rejection leaves state, step, progress, queue, transaction id and filestore untouched; PDUs that belong to the other side must be rejected. All feasible paths are explored; counterexamples are replayed on the unshimmed handlers with real bytes, real Countdown and serialisation.",
    "level_note": "Trusted: z3, symex proxies and world stubs (5% of passing paths and every failing path re-run concretely). Bounds N/T as stated; the source side is explored from canonical prefixes rather than from all histories.",
}
