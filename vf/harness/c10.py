"""C10 -- handlers fail only with protocol exceptions and only when the caller is at fault."""
from __future__ import annotations

from spacepackets.cfdp import ChecksumType

from vf import hdst, rigs
from vf.explore import Spec
from vf.hdst import DstScenario
from vf.rigs import ACK, UNACK
from vf.world import World

STATE_EVENTS = {ACK: ["MD", "FD", "EOF", "EOFC", "ACKFIN", "TICK", "CANCEL"],
                UNACK: ["MD", "FD", "EOF", "EOFC", "TICK", "CANCEL"]}
LAST_ONLY = ["PROMPT", "FOREIGN_FIN", "FOREIGN_NAK", "FOREIGN_KA", "FOREIGN_ACKEOF", "WRONGDIR",
             "WRONGDEST", "UNKNOWNSRC", "CANCEL_OTHER", "ACKFIN"]
MUST_REJECT = {"FOREIGN_FIN", "FOREIGN_NAK", "FOREIGN_KA", "FOREIGN_ACKEOF", "WRONGDIR", "WRONGDEST",
               "UNKNOWNSRC"}


def snapshot(rig):
    h = rig.h
    return (h.state, h.step, h.progress, len(h._pdus_to_be_sent), h.transaction_id,
            len(rig.fs.calls), h.file_size)


def judge_dest_call(ctx, o, pre, post, kind):
    name = rigs.exc_name(o.exc)
    if o.exc is not None:
        ctx.prop("only_documented_exceptions", name in hdst.DEST_DOCUMENTED,
                 lambda: {"sig": rigs.exc_sig(o.exc), "step": o.step0.name, "event": str(o.call),
                          "message": str(o.exc)[:120]})
        if name == "UnretrievedPdusToBeSent":
            ctx.prop("unretrieved_only_if_queued", o.queue0 > 0,
                     lambda: {"sig": rigs.exc_sig(o.exc), "step": o.step0.name, "event": str(o.call)})
        elif name in rigs.ADMISSION_DEST:
            ctx.covered("admission:" + name)
            same = (pre[0] == post[0] and pre[1] == post[1] and pre[3] == post[3]
                    and pre[4] == post[4] and pre[5] == post[5] and len(o.pdus) == 0)
            ctx.prop("rejected_pdu_changes_nothing", same,
                     lambda: {"sig": f"{name}@{o.step0.name}", "pre": str(pre), "post": str(post)})
            ctx.prop("rejected_pdu_keeps_progress", pre[2] == post[2])
    if kind in MUST_REJECT:
        ctx.prop("foreign_pdu_is_rejected", name in rigs.ADMISSION_DEST,
                 lambda: {"sig": f"{kind} -> {name}"})


def h_dest(ctx, N, mode, imm):
    w = World(ctx)
    mode = ACK if mode == "ack" else UNACK
    sc = DstScenario(ctx, w, mode=mode, cktype=ChecksumType.CRC_32,
                     closure=bool(ctx.choice("closure", 2)), rig_kwargs={"immediate_nak": imm})
    for i in range(N):
        alphabet = STATE_EVENTS[mode] + (LAST_ONLY if i == N - 1 else [])
        pre = snapshot(sc.rig)
        o = sc.step(alphabet)
        post = snapshot(sc.rig)
        judge_dest_call(ctx, o, pre, post, sc.events[-1][0] if sc.events[-1][0] != "FOREIGN"
                        else "FOREIGN_" + sc.events[-1][1])
        ctx.covered("step:" + o.step1.name)


def plan(tier):
    n = 4 if tier == "quick" else 5
    specs = []
    for mode in ("ack", "unack"):
        for imm in ((True, False) if mode == "ack" else (True,)):
            specs.append(Spec(f"dest/{mode}/imm={imm}/N={n}", "vf.harness.c10:h_dest",
                              {"N": n, "mode": mode, "imm": imm}, twin_share=0.05))
    return specs
