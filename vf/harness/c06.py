"""C06 -- NAKs request exactly what is missing (H-DST, grid-segmented file)."""
from __future__ import annotations

from cfdppy.handler.dest import TransactionStep as DStep
from spacepackets.cfdp import ChecksumType

from vf import hdst, rigs, symex
from vf.explore import Spec
from vf.hdst import DstScenario
from vf.rigs import ACK, pdu_kind
from vf.symex import sand, simplies, smax, snot, sor
from vf.world import World


def stored_at(segs, x):
    return sor(False, *[sand(o <= x, x < o + n) for o, n in segs])


def requested_at(reqs, x):
    return sor(False, *[sand(a <= x, x < b) for a, b in reqs])


def harness(ctx, N, M, imm, pmode, script=None):
    w = World(ctx)
    L = ctx.int("L", 1, hdst.LMAX)
    ids = rigs.Ids(2, 2)
    hdr = 4 + 2 * ids.id_w + ids.seq_w
    base = hdr + 1 + 8
    if pmode == "small":
        P = ctx.int("P", base + 8, base + 8 * 3 + 7)  # 1..3 segment requests per NAK PDU
    else:
        P = 2048
    sc = DstScenario(ctx, w, mode=ACK, cktype=ChecksumType.CRC_32, closure=False, seg=L, ids=ids,
                     rig_kwargs={"immediate_nak": imm, "max_packet_len": P})
    sc.M = M
    S = sc.S
    ctx.assume(S <= M * L)
    x = ctx.int("x", 0, hdst.OMAX)
    stored = []  # (offset, len) of File Data accepted (written) so far
    seen_end = 0  # largest end offset of any File Data PDU delivered so far
    md_seen = False
    eof_seen = False
    done = False
    deferred_issued = False
    for i in range(N):
        pre_stored = list(stored)
        pre_md, pre_eof = md_seen, eof_seen
        o = sc.step(script[i] if script else ["MD", "FDG", "EOF", "TICK"])
        hdst.end_if_other_property(ctx, o)
        ev = sc.events[-1]
        inds = [e[0] for e in o.ind]
        if "metadata_recv" in inds:
            md_seen = True
        if ev[0] == "FD":
            seen_end = smax(seen_end, ev[1] + ev[2])
            if "segment_recv" in inds:
                stored.append((ev[1], ev[2]))
        if ev[0] == "EOF" and o.exc is None:
            eof_seen = True
        if "finished" in inds:
            done = True
        naks = [p for p in o.pdus if pdu_kind(p) == "NAK"]
        extent = S if eof_seen else seen_end
        all_reqs = []
        for p in naks:
            ctx.covered("nak_pdu")
            if pre_eof:  # the length and scope clauses are stated for the deferred sequence
                ctx.prop("nak_packet_len", p.packet_len <= P,
                         lambda: {"sig": "deferred NAK longer than max packet length"})
            ctx.prop("nak_has_requests", len(p.segment_requests) >= 1)
            for (a, b) in p.segment_requests:
                if a == 0 and b == 0:
                    ctx.covered("metadata_request")
                    ctx.prop("metadata_requested_only_while_missing", not pre_md,
                             lambda: {"sig": "(0,0) although Metadata was received"})
                    continue
                ctx.prop("request_nonempty_ordered", sand(0 <= a, a < b), lambda: {"sig": "empty or inverted request"})
                ctx.prop("request_inside_known_extent", b <= extent,
                         lambda: {"sig": "request beyond the extent known so far"})
                ctx.prop("request_only_unstored_bytes",
                         simplies(sand(a <= x, x < b), snot(stored_at(pre_stored, x))),
                         lambda: {"sig": "request covers bytes that were already stored"})
                if pre_eof:
                    ctx.prop("scope_encloses_request", sand(p.start_of_scope <= a, b <= p.end_of_scope),
                             lambda: {"sig": "request outside the NAK scope"})
                all_reqs.append((a, b))
        if len(naks) > 1:
            ctx.covered("multi_pdu_nak_sequence")
        if pre_eof and naks:
            # deferred procedure: the sequence as a whole requests exactly what is missing
            ctx.covered("deferred_sequence")
            ref = pre_stored if ev[0] == "FD" else stored
            ctx.prop("deferred_sequence_requests_exactly_missing",
                     simplies(sand(0 <= x, x < S), requested_at(all_reqs, x) == snot(stored_at(ref, x))),
                     lambda: {"sig": "deferred NAK sequence differs from the missing set"})
            has_md_req = any((a == 0 and b == 0) for p in naks for (a, b) in p.segment_requests)
            ctx.prop("deferred_sequence_requests_metadata_iff_missing", has_md_req == (not pre_md),
                     lambda: {"sig": "metadata request wrong in deferred sequence"})
        if pre_eof and naks:
            deferred_issued = True
        if pre_eof and pre_md and not naks and not done and not deferred_issued and ev[0] == "TICK":
            # EOF and Metadata are there, no NAK sequence was ever issued and none comes now:
            # then nothing may be missing
            ctx.covered("silent_after_eof")
            ctx.prop("no_nak_only_if_nothing_missing",
                     simplies(sand(0 <= x, x < S), stored_at(stored, x)),
                     lambda: {"sig": "bytes missing after EOF but no NAK was ever sent"})
    if eof_seen and md_seen:
        ctx.covered("eof_and_metadata_seen")


def plan(tier):
    q = tier == "quick"
    specs = []
    for imm in (True, False):
        for pmode, (n, m) in (("large", (5, 3) if q else (6, 3)), ("small", (5, 3) if q else (6, 4))):
            specs.append(Spec(f"nak/imm={imm}/P={pmode}/N={n}/M={m}", "vf.harness.c06:harness",
                              {"N": n, "M": m, "imm": imm, "pmode": pmode}, twin_share=0.02,
                              obligations=["nak_pdu", "deferred_sequence", "metadata_request"]
                              + (["multi_pdu_nak_sequence"] if pmode == "small" else [])))
    # wide files: many grid segments, fewer degrees of freedom per event (gaps of several segments,
    # late segments strictly inside a gap, several gaps)
    mw = 7 if q else 8
    for imm in (True, False):
        for name, script in (
                ("md-first", [["MD"], ["FDG"], ["FDG"], ["FDG", "EOF"], ["FDG", "EOF"], ["EOF", "TICK"]]),
                ("md-late", [["FDG"], ["FDG"], ["FDG", "EOF"], ["FDG", "EOF", "MD"], ["EOF", "MD"], ["MD", "TICK"]])):
            n = 5 if q else 6
            specs.append(Spec(f"wide/{name}/imm={imm}/N={n}/M={mw}", "vf.harness.c06:harness",
                              {"N": n, "M": mw, "imm": imm, "pmode": "large", "script": script[:n]}, twin_share=0.02,
                              obligations=["nak_pdu", "deferred_sequence"]))
    return specs


BOUNDS = {
    "quick": "acknowledged mode, grid-segmented file: size S and segment length L symbolic with S <= 3*L; every sequence of N=5 events over {Metadata, segment k (k forked over 0..M-1, so loss = never chosen, duplication = chosen twice, any order), EOF(no error), tick}; immediate and deferred NAK mode; maximum packet length 2048 and symbolic small values admitting 1..3 segment requests per NAK PDU; plus 'wide' specs with M=7 grid segments (S <= 7*L) and scripted alphabets: Metadata first, three free segments, then segment-or-EOF twice; and Metadata late (after two or three segments / the EOF)",
    "thorough": "N=6, M=3 (large P) / M=4 (small P); wide specs N=6, M=8",
}
OUTSIDE = "non-grid segmentation (C05/C10 territory), more than M segments, sequences longer than N, large-file PDUs"
FUNCTIONS = ["DestHandler.state_machine", "_lost_segment_handling", "_handle_fd_without_previous_metadata", "_handle_eof_without_previous_metadata",
             "_handle_no_error_eof", "_start_deferred_lost_segment_handling", "_deferred_lost_segment_handling", "LostSegmentTracker.*",
             "spacepackets get_max_seg_reqs_for_max_packet_size_and_pdu_cfg / NakPdu length arithmetic"]
EXPLANATION = ("Independent interval model: stored(x) = some accepted segment covers the witness x. Requests are compared with the model state "
               "before the call (a NAK may be computed before the call's packet is processed), the deferred sequence with the exact missing set.")
ASSUMPTIONS = ["segment k is FD(k*L, min(L, S-k*L)); acceptance is read off the File-Segment-Recv indication",
               "symbolic clock, in-memory filestore, default fault handlers"]
MANIFEST = {
    "technique": "bounded symbolic execution (z3) of the real DestHandler on all arrival orders of a grid-segmented file with symbolic size, segment length and maximum packet length; NAK contents compared with an interval model at a symbolic witness",
    "design_ref": "DESIGN.md 7.6",
    "level_text": "All event sequences up to length N over Metadata / any of the M grid segments / EOF / timer ticks are run through the real acknowledged-mode receiver with S, L and P symbolic. For every NAK PDU z3 shows: requests non-empty, inside the extent known so far, covering only bytes not stored before the call, enclosed by the scope, packet length within the maximum, (0,0) only while Metadata is missing; for NAK sequences after EOF: the union of requests equals the missing set of [0,S) at the witness, and silence after EOF implies nothing is missing.",
    "level_note": "Trusted: z3, symex proxies/stubs (2% of passing and all failing paths re-run concretely). Bounds: N events, M segments.",
}
