"""C03 -- acknowledged mode recovers from bounded loss, duplication and reordering (H-SYS)."""
from __future__ import annotations

from cfdppy.mib import FaultHandlerCode
from spacepackets.cfdp import ChecksumType, ConditionCode

from vf import hsys, rigs, symex
from vf.explore import Spec
from vf.harness import c02
from vf.rigs import ACK
from vf.world import World


def harness(ctx, M, K, rounds=None, swap=True, limits=None, kinds=None, strict=False):
    w = World(ctx, injective=True, nonzero_source=True)
    x = ctx.int("x", 0, 2**16)
    w.witness = x
    faults = list(kinds) if kinds else ["deliver", "drop", "dup"] + (["swap"] if swap else [])
    sysm, cfg = c02.setup(ctx, w, M, 2, 2, K=K, modes=(ACK,), cktypes=[ChecksumType.CRC_32],
                          limits=(K + 1) if limits is None else limits, shapes=("file",), faults=faults,
                          fixed={"crc": False, "use_L": False},
                          # strict: every fault condition cancels the transaction (also File Checksum Failure,
                          # which the library ignores by default) - a fault declared without need is fatal
                          fault_table={c: FaultHandlerCode.NOTICE_OF_CANCELLATION for c in STRICT} if strict else None)
    o = sysm.start()
    ctx.prop("put_accepted", o.exc is None and o.ret is True)
    R = rounds or (14 + 10 * K + 2 * M)
    done = sysm.run(R)
    ctx.covered(f"faults_used={sysm.used}")
    ctx.note("faults", sysm.used, "rounds", sysm.rounds, "quiet_expiries", sysm.quiet_expiries)
    if not done and not sysm.exceptions:
        # slow but converging? give it ten times as long before calling it stuck
        done = sysm.run(10 * R)
    c02.success_oracle(ctx, w, sysm, cfg, x, done)


STRICT = [ConditionCode.FILE_CHECKSUM_FAILURE, ConditionCode.FILE_SIZE_ERROR, ConditionCode.NAK_LIMIT_REACHED,
          ConditionCode.POSITIVE_ACK_LIMIT_REACHED, ConditionCode.CHECK_LIMIT_REACHED, ConditionCode.FILESTORE_REJECTION]


def plan(tier):
    if tier == "quick":
        combos = [(2, 1), (1, 2), (2, 2)]
    else:
        combos = [(2, 1), (2, 2), (3, 2), (1, 3)]
    specs = []
    for m, k in combos:
        specs.append(Spec(f"recover/M={m}/K={k}", "vf.harness.c03:harness", {"M": m, "K": k}, twin_share=0.02,
                          obligations=[f"faults_used={k}"]))
    # deeper reordering (a PDU overtaken by the next two) combined with loss, three segments
    specs.append(Spec("recover/loss+reorder-by-two/M=3/K=2", "vf.harness.c03:harness",
                      {"M": 3, "K": 2, "kinds": ["deliver", "drop", "swap2"]}, twin_share=0.02,
                      obligations=["faults_used=2"]))
    specs.append(Spec("recover/strict-fault-table/M=2/K=1", "vf.harness.c03:harness",
                      {"M": 2, "K": 1, "strict": True}, twin_share=0.02, obligations=["faults_used=1"]))
    if tier != "quick":
        specs.append(Spec("recover/all-kinds/M=3/K=2", "vf.harness.c03:harness",
                          {"M": 3, "K": 2, "kinds": ["deliver", "drop", "dup", "swap", "swap2"]}, twin_share=0.02))
    return specs


BOUNDS = {
    "quick": "acknowledged mode, immediate and deferred NAK, closure on/off, CRC-32, widths (2,2); file of at most M segments with symbolic size and max packet length; every transmission in either direction gets a solver-forked fault (deliver / drop / duplicate / hold back behind the next PDU; plus a run with drop / hold back behind the next TWO PDUs on three segments) and every round with PDUs in flight a possible timer expiry (delay fault) while the budget K lasts; all expiration limits = K+1; (M,K) = (2,1), (1,2), (2,2), and (2,1) with a fault-handler table in which every condition (incl. File Checksum Failure) cancels the transaction; after the budget the link is reliable and the clock advances whenever the system is quiescent; a run still busy after 14+10K+2M rounds is given ten times as long before it counts as stuck",
    "thorough": "(M,K) = (2,1), (2,2), (3,2), (1,3)",
}
OUTSIDE = "more than K faults, more than M segments, reordering deeper than two positions per fault, corruption (C01), unacknowledged mode"
FUNCTIONS = c02.FUNCTIONS
EXPLANATION = "Closed system as C02 with a fault decision per transmission charged to a budget; quiescence forces timer expiry."
ASSUMPTIONS = c02.ASSUMPTIONS + ["every expiration limit is K+1", "a PDU refused by a handler's admission check is dropped by the entity and the handler is called again without packet"]
MANIFEST = {
    "technique": "bounded symbolic execution (z3) of the closed system real SourceHandler + real DestHandler with a solver-forked fault per transmission within budget K",
    "design_ref": "DESIGN.md 7.3",
    "level_text": "All fault schedules with at most K faults (drop, duplicate, reorder by one, early timer expiry; either direction; any PDU type) on files of at most M segments with symbolic size are executed on both real handlers; on every feasible path, once the link is quiet and timers keep expiring, both users must receive a successful Transaction-Finished indication, both handlers must be idle, no API call may raise and the destination file must equal the source at an arbitrary witness index.",
    "level_note": "Trusted: z3, symex proxies/stubs (2% of passing and all failing paths re-run concretely), the harness's entity responder. Bounds: K faults, M segments.",
}
