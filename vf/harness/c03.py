"""C03 -- acknowledged mode recovers from bounded loss, duplication and reordering (H-SYS)."""
from __future__ import annotations

from spacepackets.cfdp import ChecksumType

from vf import hsys, rigs, symex
from vf.explore import Spec
from vf.harness import c02
from vf.rigs import ACK
from vf.world import World


def harness(ctx, M, K, rounds=None, swap=True, limits=None):
    w = World(ctx, injective=True, nonzero_source=True)
    x = ctx.int("x", 0, 2**16)
    w.witness = x
    faults = ["deliver", "drop", "dup"] + (["swap"] if swap else [])
    sysm, cfg = c02.setup(ctx, w, M, 2, 2, K=K, modes=(ACK,), cktypes=[ChecksumType.CRC_32],
                          limits=(K + 1) if limits is None else limits, shapes=("file",), faults=faults,
                          fixed={"crc": False, "use_L": False})
    o = sysm.start()
    ctx.prop("put_accepted", o.exc is None and o.ret is True)
    R = rounds or (14 + 10 * K + 2 * M)
    done = sysm.run(R)
    ctx.covered(f"faults_used={sysm.used}")
    ctx.note("faults", sysm.used, "rounds", sysm.rounds, "quiet_expiries", sysm.quiet_expiries)
    if not done and not sysm.exceptions:
        # slow but converging? give it ten times as long before calling it stuck
        done = sysm.run(10 * R)
    c02.success_oracle(ctx, w, sysm, cfg, x, done)


def plan(tier):
    if tier == "quick":
        combos = [(2, 1), (1, 2)]
    else:
        combos = [(2, 1), (2, 2), (3, 2), (1, 3)]
    specs = []
    for m, k in combos:
        specs.append(Spec(f"recover/M={m}/K={k}", "vf.harness.c03:harness", {"M": m, "K": k}, twin_share=0.02,
                          obligations=[f"faults_used={k}"]))
    return specs
