"""C15 -- user indications are faithful, causally ordered and gated by configuration."""
from __future__ import annotations

from cfdppy.mib import IndicationCfg
from spacepackets.cfdp import ChecksumType, ConditionCode, TransactionId
from spacepackets.cfdp.pdu.finished import DeliveryCode, FileStatus, FinishedParams
from spacepackets.cfdp.tlv import (
    MessageToUserTlv,
    OriginatingTransactionId,
    ProxyPutResponse,
    ProxyPutResponseParams,
)
from spacepackets.util import ByteFieldU16

from vf import hdst, hsrc, rigs, symex
from vf.explore import Spec
from vf.hdst import DstScenario
from vf.rigs import ACK, UNACK, pdu_kind
from vf.symex import sand, simplies, snot
from vf.world import World

RESOLVED = "/dst/file.bin"


def switches(ctx):
    sw = {k: ctx.bool(k) for k in ("sw_eof_sent", "sw_eof_recv", "sw_segment", "sw_finished")}
    cfg = IndicationCfg(eof_sent_indication_required=sw["sw_eof_sent"],
                        eof_recv_indication_required=sw["sw_eof_recv"],
                        file_segment_recvd_indication_required=sw["sw_segment"],
                        transaction_finished_indication_required=sw["sw_finished"])
    return sw, cfg


def h_dest(ctx, N, mode, prefix=(), limits=2, reject=False, disposition=False):
    w = World(ctx)
    mode = ACK if mode == "ack" else UNACK
    sw, icfg = switches(ctx)
    closure = bool(ctx.choice("closure", 2))
    sc = DstScenario(ctx, w, mode=mode, cktype=ChecksumType.CRC_32, closure=closure,
                     rig_kwargs={"indications": icfg, "immediate_nak": True, "ack_limit": limits,
                                 "nak_limit": limits, "check_limit": limits, "disposition": disposition})
    S = sc.S
    # the Metadata PDU carries two messages to user and a flow label (which is not a message to user)
    from spacepackets.cfdp import FlowLabelTlv
    sc.md_options = [MessageToUserTlv(b"first"), FlowLabelTlv(b"fl"), MessageToUserTlv(b"second")]
    if reject:
        # the filestore refuses to create / truncate the destination file (default handler: cancellation)
        sc.rig.fs.reject = lambda kind, p: PermissionError if kind in ("create", "truncate") else None
    if prefix:
        ctx.assume(S <= hdst.LMAX)
    alphabet = ["MD", "FD", "EOF", "EOFC", "TICK", "CANCEL"] + (["ACKFIN"] if mode == ACK else [])
    script = list(prefix)
    md_ind = False
    finished_seen = False
    cancelled_after_finish = False
    eof_seen = False
    pending_fin_ind = None  # codes of the last Transaction-Finished indication, to match the Finished PDU
    for i in range(len(script) + N):
        was_idle = sc.rig.idle
        if i < len(script):
            # scripted prefix: a complete delivery, so that the open part starts in the late steps
            o = {"MD": sc.md, "FD0": lambda: sc.fd(0, S), "EOF": sc.eof, "TICK0": sc.tick0}[script[i]]()
        else:
            o = sc.step(alphabet)
        hdst.end_if_other_property(ctx, o)
        ev = sc.events[-1]
        kinds = [e[0] for e in o.ind]
        if finished_seen and (ev[0] == "CANCEL" or (ev[0] == "EOF" and len(ev) > 1 and ev[1] != 0) or o.faults):
            cancelled_after_finish = True  # cancel request, EOF(cancel) or a declared fault: a further completion event
        # --- gating: a disabled indication is never delivered
        for e in o.ind:
            if e[0] == "segment_recv":
                ctx.prop("disabled_indication_not_delivered", sw["sw_segment"], lambda: {"sig": "File-Segment-Recv"})
            elif e[0] == "eof_recv":
                ctx.prop("disabled_indication_not_delivered", sw["sw_eof_recv"], lambda: {"sig": "EOF-Recv"})
            elif e[0] == "finished":
                ctx.prop("disabled_indication_not_delivered", sw["sw_finished"], lambda: {"sig": "Transaction-Finished"})
            elif e[0] in ("eof_sent", "transaction"):
                ctx.prop("receiver_issues_only_receiver_indications", False, lambda: {"sig": e[0]})
            if e[0] in ("segment_recv", "eof_recv", "finished", "metadata_recv"):
                ctx.prop("indication_transaction_id", e[1] == sc.tid, lambda: {"sig": f"{e[0]} id {e[1]}"})
        # --- order within the transaction
        if was_idle and not sc.rig.idle or (was_idle and "metadata_recv" in kinds):
            md_ind = False
            finished_seen = False
            cancelled_after_finish = False
            eof_seen = False
        for e in o.ind:
            if e[0] == "metadata_recv":
                md_ind = True
            if e[0] == "segment_recv":
                ctx.prop("segment_indication_after_metadata", md_ind, lambda: {"sig": "File-Segment-Recv before Metadata-Recv"})
            if e[0] != "finished":
                ctx.prop("nothing_after_transaction_finished", not finished_seen,
                         lambda: {"sig": f"{e[0]} after Transaction-Finished"})
            if e[0] == "finished":
                if finished_seen:
                    # a second Transaction-Finished for the same transaction needs a second completion event:
                    # a cancellation (request, EOF(cancel) or a declared fault) after the first one
                    ctx.prop("one_indication_per_completion", cancelled_after_finish,
                             lambda: {"sig": "Transaction-Finished repeated without a further completion event"})
                finished_seen = True
                cancelled_after_finish = False
                pending_fin_ind = (e[2], e[3], e[4])
        if kinds and "finished" in kinds:
            ctx.prop("transaction_finished_is_last_in_call", kinds[-1] == "finished" or kinds.count("finished") == 1
                     and kinds.index("finished") == len(kinds) - 1, lambda: {"sig": str(kinds)})
        # --- completeness and parameters
        writes = [c for c in o.fs if c[0] == "write"]
        segs = [e for e in o.ind if e[0] == "segment_recv"]
        if ev[0] == "FD":
            if writes:
                ctx.covered("fd_accepted")
                ctx.prop("enabled_segment_indication_delivered", simplies(sw["sw_segment"], len(segs) == 1),
                         lambda: {"sig": "File Data written without File-Segment-Recv"})
            for e in segs:
                ctx.prop("segment_indication_matches_pdu", sand(e[2] == ev[1], e[3] == ev[2]),
                         lambda: {"sig": "File-Segment-Recv offset/length differ from the PDU"})
                ctx.prop("segment_indication_only_for_accepted_data", len(writes) == 1)
        else:
            ctx.prop("segment_indication_only_for_file_data", len(segs) == 0)
        mds = [e for e in o.ind if e[0] == "metadata_recv"]
        if ev[0] == "MD" and any(c[0] in ("create", "truncate", "rejected") for c in o.fs):
            # the Metadata PDU was taken up (file creation attempted, whether or not the filestore allowed it)
            ctx.covered("md_rejected_by_filestore" if any(c[0] == "rejected" for c in o.fs) else "md_accepted")
            ctx.prop("metadata_indication_delivered", len(mds) == 1)
        for e in mds:
            ctx.prop("metadata_indication_only_for_metadata", ev[0] == "MD")
            ctx.prop("metadata_indication_parameters",
                     sand(e[3] == S, e[4] == sc.src_name, e[5] == sc.dst_name, e[2] == sc.ids.src),
                     lambda: {"sig": "Metadata-Recv parameters differ from the PDU"})
            got_msgs = [bytes(m.value) for m in (e[6] or [])]
            ctx.prop("metadata_indication_messages", got_msgs == [b"first", b"second"],
                     lambda: {"sig": f"Metadata-Recv carries the messages to user {got_msgs}, the PDU first/second"})
        eofs = [e for e in o.ind if e[0] == "eof_recv"]
        if ev[0] == "EOF" and o.exc is None and any(pdu_kind(p) == "ACK" for p in o.pdus) and not eof_seen:
            # the first EOF of the transaction; a repeated EOF is acknowledged again but is the same event
            eof_seen = True
            ctx.covered("eof_accepted")
            ctx.prop("enabled_eof_indication_delivered", simplies(sw["sw_eof_recv"], len(eofs) == 1),
                     lambda: {"sig": "EOF acknowledged without EOF-Recv"})
        if eofs:
            ctx.prop("eof_indication_only_for_eof", ev[0] == "EOF")
        # --- Transaction-Finished agrees with the Finished PDU emitted for that completion
        for p in o.pdus:
            if pdu_kind(p) == "FIN":
                ctx.covered("finished_pdu")
                ctx.prop("finished_pdu_has_indication", simplies(sw["sw_finished"], finished_seen),
                         lambda: {"sig": "Finished PDU without Transaction-Finished indication"})
                if pending_fin_ind is not None and finished_seen:
                    ctx.prop("finished_indication_matches_finished_pdu",
                             (p.condition_code, p.delivery_code, p.file_status) == pending_fin_ind,
                             lambda: {"sig": f"indication {pending_fin_ind} vs PDU "
                                             f"{(p.condition_code, p.delivery_code, p.file_status)}"})
        if not was_idle and sc.rig.idle and mode == UNACK and not closure and o.exc is None \
                and not any(f[0] == "abandon" for f in o.faults):
            ctx.prop("completion_has_indication", simplies(sw["sw_finished"], "finished" in kinds),
                     lambda: {"sig": "transaction completed without Transaction-Finished"})


MSG_SETS = ["none", "plain", "orig", "orig+proxy", "proxy-after-orig", "orig-plain-proxy"]


def build_msgs(kind):
    orig = TransactionId(ByteFieldU16(7), ByteFieldU16(3))
    if kind == "none":
        return None, None
    if kind == "plain":
        return [MessageToUserTlv(b"hello")], None
    om = OriginatingTransactionId(orig).to_generic_msg_to_user_tlv()
    if kind == "orig":
        return [om], orig
    pr = ProxyPutResponse(ProxyPutResponseParams.from_finished_params(FinishedParams(
        DeliveryCode.DATA_COMPLETE, ConditionCode.NO_ERROR, FileStatus.FILE_RETAINED))).to_generic_msg_to_user_tlv()
    if kind == "proxy-after-orig":
        return [om, pr], None
    if kind == "orig-plain-proxy":
        return [om, MessageToUserTlv(b"hello"), pr], None
    return [pr, om], None


def h_src(ctx, T, mode, prefix, msgs):
    from vf.harness.c10 import SRC_PREFIXES, SRC_STATE
    w = World(ctx)
    mode = ACK if mode == "ack" else UNACK
    sw, icfg = switches(ctx)
    closure = bool(ctx.choice("closure", 2))
    sc = hsrc.SrcScenario(ctx, w, mode=mode, closure=closure, M=2, rig_kwargs={"indications": icfg})
    mlist, want_orig = build_msgs(msgs)
    o = sc.put(msgs=mlist)
    o = sc.sm()
    hsrc.end_if_other_property(ctx, o)
    sc.remember_conf()
    tid = sc.rig.h.transaction_id
    tr = [e for e in o.ind if e[0] == "transaction"]
    ctx.prop("transaction_indication_first", len(o.ind) >= 1 and o.ind[0][0] == "transaction" and len(tr) == 1,
             lambda: {"sig": str([e[0] for e in o.ind])})
    ctx.prop("transaction_indication_id", tr[0][1] == tid and tid is not None)
    got_orig = tr[0][2]
    same = (got_orig is None and want_orig is None) or (
        got_orig is not None and want_orig is not None and got_orig == want_orig)
    ctx.prop("originating_id_rule", same,
             lambda: {"sig": f"{msgs}: originating id {tr[0][2]}"})
    md = o.pdus[0]
    ctx.prop("metadata_pdu_carries_messages", (md.options or []) == (mlist or []))
    eof_sent_seen = False
    finished_seen = False
    pre_events = SRC_PREFIXES[prefix]
    fin_pdus = []
    for i in range(len(pre_events) + T):
        if i < len(pre_events):
            alphabet = [pre_events[i]]
            if mode == UNACK and pre_events[i] in ("NAK", "ACKEOF"):
                alphabet = ["SM"]
        else:
            alphabet = SRC_STATE[mode]
        was_idle = sc.rig.idle
        o = sc.step(alphabet)
        hsrc.end_if_other_property(ctx, o)
        ev = sc.events[-1]
        if ev[0] == "FIN" and o.exc is None and o.step0.name == "WAITING_FOR_FINISHED":
            fin_pdus.append(tuple(ev[1:]))
        kinds = [e[0] for e in o.ind]
        for e in o.ind:
            if e[0] == "eof_sent":
                ctx.prop("disabled_indication_not_delivered", sw["sw_eof_sent"], lambda: {"sig": "EOF-Sent"})
                ctx.prop("indication_transaction_id", e[1] == tid)
                eof_sent_seen = True
            elif e[0] == "finished":
                ctx.prop("disabled_indication_not_delivered", sw["sw_finished"], lambda: {"sig": "Transaction-Finished"})
                ctx.prop("indication_transaction_id", e[1] == tid)
                ctx.prop("transaction_finished_once", not finished_seen)
                finished_seen = True
                if fin_pdus:
                    ctx.prop("finished_indication_matches_finished_pdu",
                             (int(e[2]), int(e[3]), int(e[4])) in fin_pdus,
                             lambda: {"sig": "sender indication differs from the Finished PDU received"})
            elif e[0] == "transaction":
                ctx.prop("one_transaction_indication", False, lambda: {"sig": "second Transaction indication"})
            else:
                ctx.prop("sender_issues_only_sender_indications", False, lambda: {"sig": e[0]})
            if e[0] != "finished":
                ctx.prop("nothing_after_transaction_finished", not finished_seen)
        n_eof = sum(1 for p in o.pdus if pdu_kind(p) == "EOF")
        if n_eof:
            ctx.covered("eof_emitted")
            ctx.prop("enabled_eof_sent_delivered", simplies(sw["sw_eof_sent"], kinds.count("eof_sent") == n_eof),
                     lambda: {"sig": "EOF PDU emitted without EOF-Sent indication"})
        else:
            ctx.prop("eof_sent_only_with_eof_pdu", "eof_sent" not in kinds)
        if not was_idle and sc.rig.idle and o.exc is None and not any(f[0] == "abandon" for f in o.faults):
            ctx.covered("sender_completed")
            ctx.prop("completion_has_indication", simplies(sw["sw_finished"], "finished" in kinds),
                     lambda: {"sig": f"sender transaction ended ({ev[0]}) without Transaction-Finished"})


def plan(tier):
    q = tier == "quick"
    specs = []
    n = 4 if q else 5
    for mode in ("ack", "unack"):
        if mode == "ack":
            n = 4  # N=5 acknowledged is ~15x the quick cost; the prefix specs below go deeper instead
        else:
            n = 4 if q else 5
        specs.append(Spec(f"dest/{mode}/N={n}", "vf.harness.c15:h_dest", {"N": n, "mode": mode}, twin_share=0.03,
                          obligations=["fd_accepted", "md_accepted"]))
    for lim in (1, 2):
        specs.append(Spec(f"dest/ack/after-delivery/limits={lim}/N={3 if q else 4}", "vf.harness.c15:h_dest",
                          {"N": 3 if q else 4, "mode": "ack", "prefix": ["MD", "FD0", "EOF", "TICK0"], "limits": lim},
                          twin_share=0.05, obligations=["finished_pdu"]))
    specs.append(Spec(f"dest/unack/after-eof-missing/limits=1/N={3 if q else 4}", "vf.harness.c15:h_dest",
                      {"N": 3 if q else 4, "mode": "unack", "prefix": ["MD", "EOF"], "limits": 1}, twin_share=0.05))
    # disposition on cancellation: the file status in the indication is the one in the Finished PDU
    specs.append(Spec("dest/ack/disposition-on-cancellation/N=3", "vf.harness.c15:h_dest",
                      {"N": 3, "mode": "ack", "disposition": True}, twin_share=0.05, obligations=["finished_pdu"]))
    for mode in ("ack", "unack"):
        specs.append(Spec(f"dest/{mode}/file-creation-rejected/N=3", "vf.harness.c15:h_dest",
                          {"N": 3, "mode": mode, "reject": True}, twin_share=0.05,
                          obligations=["md_rejected_by_filestore"]))
    t = 2 if q else 3
    for mode, pre in (("ack", "md"), ("ack", "sm2"), ("ack", "sm3"), ("ack", "eof_acked"), ("ack", "fin_rcvd"),
                      ("unack", "md"), ("unack", "sm2"), ("unack", "sm3"), ("unack", "fin_rcvd")):
        specs.append(Spec(f"src/{mode}/after-{pre}/T={t}", "vf.harness.c15:h_src",
                          {"T": t, "mode": mode, "prefix": pre, "msgs": "none"}, twin_share=0.05))
    for msgs in MSG_SETS[1:]:
        specs.append(Spec(f"src/unack/msgs={msgs}", "vf.harness.c15:h_src",
                          {"T": 1, "mode": "unack", "prefix": "md", "msgs": msgs}, twin_share=0.2))
    return specs


BOUNDS = {
    "quick": "the four implemented indication switches symbolic (forked when the handler consults them); receiver: every sequence of N=4 events (and N=3 events after a scripted complete delivery with expiration limits 1 and 2, so that limit faults and the Finished(cancel) exchange are reached) over {Metadata, File Data (symbolic offset/length), EOF, EOF(cancel), tick, cancel request, ACK(Finished)} in both modes, closure on/off; sender: 9 canonical prefixes + every sequence of T=2 events; message-to-user lists: none / plain / originating id / proxy put response before and after the originating id / with a plain message in between",
    "thorough": "receiver N=5, sender T=3",
}
OUTSIDE = "TLV contents beyond the four lists; suspended/resumed indications (unimplemented); 'exactly one Transaction-Finished per transaction' is not demanded here (a cancel request after completion repeats it)"
FUNCTIONS = ["DestHandler._handle_metadata_packet", "_handle_fd_pdu", "_handle_eof_pdu", "_handle_eof_without_previous_metadata", "_notice_of_completion",
             "SourceHandler._transaction_start", "_check_for_originating_id", "_prepare_eof_pdu", "_notice_of_completion", "_handle_eof_sent"]
EXPLANATION = "Indication switches are symbolic booleans inside the real IndicationCfg; gating clauses are solver queries on the path on which the handler consulted the switch."
ASSUMPTIONS = ["acceptance of File Data = a filestore write in the same call; acceptance of EOF = an EOF ACK (acknowledged) / no exception", "in-memory filestore, symbolic clock, default fault handlers"]
MANIFEST = {
    "technique": "bounded symbolic execution (z3) of both real handlers with the indication switches as symbolic booleans, over bounded event sequences",
    "design_ref": "DESIGN.md 7.15",
    "level_text": "With the four implemented switches symbolic, all event sequences up to the bound are executed on the real handlers; the oracle requires: a disabled indication never appears, an enabled one appears for every accepted File Data / EOF / completion, File-Segment-Recv and Metadata-Recv parameters equal the PDU fields, nothing follows Transaction-Finished, segments are only indicated after Metadata-Recv, the Transaction-Finished codes equal those of the Finished PDU emitted (receiver) or received (sender), Transaction indication first with the originating-id rule.",
    "level_note": "Trusted: z3, symex proxies/stubs (3-5% of passing and all failing paths re-run concretely). Bounds N/T.",
}
