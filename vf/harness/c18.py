"""C18 -- LostSegmentTracker refines an exact interval set (H-TRK, inductive one-step).

Pre-state: k tracked ranges with unbounded symbolic integer bounds satisfying the
representation invariant, installed directly in `lost_segments`.  One real operation with
symbolic arguments under the precondition the property states.  Post: invariant and
denotation at a symbolic witness x.
"""
from __future__ import annotations

import z3

import cfdppy.handler.dest as destmod
from vf import symex
from vf.symex import SymBool, SymInt, _z, sand, sor, snot
from vf.world import World

OPS = ["add", "remove_inside", "remove_outside", "remove_empty", "remove_straddle", "coalesce",
       "reset", "add_seq"]


def _install(ctx, k, as_shim_dict):
    t = destmod.LostSegmentTracker()
    bounds = []
    prev_end = None
    for i in range(k):
        a = ctx.int(f"a{i}")
        b = ctx.int(f"b{i}")
        ctx.assume(a < b)
        if prev_end is None:
            ctx.assume(a >= 0)  # offsets are file offsets
        if prev_end is not None:
            ctx.assume(prev_end <= a)
        prev_end = b
        bounds.append((a, b))
    mk = getattr(destmod, "dict", dict) if as_shim_dict else dict
    t.lost_segments = mk(bounds)
    return t, bounds


def _den(ranges, x):
    return sor(False, *[sand(a <= x, x < b) for a, b in ranges])


def _post_ranges(t):
    return list(t.lost_segments.items())


def _check_invariant(ctx, ranges, strict_gap=False):
    for i, (a, b) in enumerate(ranges):
        ctx.prop("no_empty_range", a < b, lambda: {"range": i})
        if i + 1 < len(ranges):
            nxt = ranges[i + 1][0]
            ctx.prop("ascending_disjoint", b <= nxt, lambda: {"range": i})
            if strict_gap:
                ctx.prop("coalesce_leaves_no_adjacent", b < nxt, lambda: {"range": i})


def harness(ctx, k, op, shim_dict=True, twin=False):
    w = World(ctx)
    t, pre = _install(ctx, k, shim_dict)
    x = ctx.int("x")
    ctx.note("pre", pre, "op", op)
    if op == "reset":
        t.reset()
        post = _post_ranges(t)
        ctx.prop("reset_empties", len(post) == 0)
        ctx.prop("reset_count", t.num_lost_segments == 0)
        return
    if op == "coalesce":
        t.coalesce_lost_segments()
        post = _post_ranges(t)
        ctx.note("post", post)
        _check_invariant(ctx, post, strict_gap=True)
        ctx.prop("coalesce_keeps_set", _den(pre, x) == _den(post, x))
        ctx.prop("count_matches", t.num_lost_segments == len(post))
        return
    lo, hi = ctx.int("lo"), ctx.int("hi")
    ctx.assume(lo >= 0, hi >= 0)
    if op == "add":
        ctx.assume(lo < hi)
        for a, b in pre:
            ctx.assume(sor(hi <= a, b <= lo))
        t.add_lost_segment((lo, hi))
        post = _post_ranges(t)
        ctx.note("post", post)
        _check_invariant(ctx, post)
        ctx.prop("add_denotation", _den(post, x) == sor(_den(pre, x), sand(lo <= x, x < hi)))
        ctx.prop("count_matches", t.num_lost_segments == len(pre) + 1)
        return
    if op == "add_seq":
        # base case + two additions from the empty tracker through the public API only
        lo2, hi2 = ctx.int("lo2"), ctx.int("hi2")
        ctx.assume(lo2 >= 0)
        ctx.assume(lo < hi, lo2 < hi2, sor(hi <= lo2, hi2 <= lo))
        t2 = destmod.LostSegmentTracker()
        ctx.prop("fresh_is_empty", t2.num_lost_segments == 0)
        t2.add_lost_segment((lo, hi))
        t2.add_lost_segment((lo2, hi2))
        post = _post_ranges(t2)
        _check_invariant(ctx, post)
        ctx.prop("add_denotation", _den(post, x) == sor(sand(lo <= x, x < hi), sand(lo2 <= x, x < hi2)))
        return
    if op == "remove_empty":
        ctx.assume(lo == hi)
        r = t.remove_lost_segment((lo, hi))
        post = _post_ranges(t)
        ctx.prop("remove_empty_returns_false", r is False or r == False)  # noqa: E712
        ctx.prop("remove_empty_keeps_set", _den(post, x) == _den(pre, x))
        _check_invariant(ctx, post)
        return
    if op == "remove_outside":
        ctx.assume(lo < hi)
        for a, b in pre:
            ctx.assume(sor(hi <= a, b <= lo))
        r = t.remove_lost_segment((lo, hi))
        post = _post_ranges(t)
        ctx.prop("remove_outside_returns_false", r is False or r == False)  # noqa: E712
        ctx.prop("remove_outside_keeps_set", _den(post, x) == _den(pre, x))
        _check_invariant(ctx, post)
        return
    if op == "remove_inside":
        if k == 0:
            ctx.end("infeasible")
        ctx.assume(lo < hi)
        ctx.assume(sor(*[sand(a <= lo, hi <= b) for a, b in pre]))
        r = t.remove_lost_segment((lo, hi))
        post = _post_ranges(t)
        ctx.note("post", post)
        ctx.prop("remove_inside_returns_true", r is True or r == True)  # noqa: E712
        _check_invariant(ctx, post)
        ctx.prop("remove_denotation",
                 _den(post, x) == sand(_den(pre, x), snot(sand(lo <= x, x < hi))))
        ctx.prop("count_matches", t.num_lost_segments == len(post))
        return
    if op == "remove_straddle":
        if k == 0:
            ctx.end("infeasible")
        ctx.assume(lo < hi)
        ctx.assume(sor(*[sand(a <= lo, lo < b, hi > b) for a, b in pre]))
        try:
            t.remove_lost_segment((lo, hi))
        except ValueError:
            post = _post_ranges(t)
            ctx.covered("straddle_refused")
            ctx.prop("refusal_changes_nothing", _den(post, x) == _den(pre, x))
            ctx.prop("refusal_keeps_count", len(post) == len(pre))
            _check_invariant(ctx, post)
            return
        ctx.prop("straddle_refused_with_value_error", False, lambda: {"post": _post_ranges(t)})
        return
    raise symex.HarnessError(f"unknown op {op}")


def h_seq(ctx, K, shim_dict=True):
    """K operations through the public API on ONE tracker object, starting from a fresh one: the object may
    carry more state than `lost_segments` from call to call (the one-step harness cannot see that)"""
    w = World(ctx)
    t = destmod.LostSegmentTracker()
    if shim_dict:
        t.lost_segments = getattr(destmod, "dict", dict)(t.lost_segments)
    x = ctx.int("x")
    hist = []

    def model(xx):
        v = False
        for kind, lo, hi in hist:
            inside = sand(lo <= xx, xx < hi)
            v = sor(v, inside) if kind == "add" else sand(v, snot(inside))
        return v
    for i in range(K):
        cur = _post_ranges(t)
        op = ctx.pick(f"op{i}", ["add", "remove_inside", "remove_outside", "coalesce"])
        if op == "coalesce":
            t.coalesce_lost_segments()
            post = _post_ranges(t)
            _check_invariant(ctx, post, strict_gap=True)
        else:
            lo, hi = ctx.int(f"lo{i}"), ctx.int(f"hi{i}")
            ctx.assume(lo >= 0, lo < hi)
            if op == "add":
                for a, b in cur:
                    ctx.assume(sor(hi <= a, b <= lo))
                t.add_lost_segment((lo, hi))
                hist.append(("add", lo, hi))
            elif op == "remove_inside":
                if not cur:
                    ctx.end("infeasible")
                ctx.assume(sor(*[sand(a <= lo, hi <= b) for a, b in cur]))
                r = t.remove_lost_segment((lo, hi))
                ctx.prop("remove_inside_returns_true", r is True or r == True)  # noqa: E712
                hist.append(("rem", lo, hi))
            else:
                for a, b in cur:
                    ctx.assume(sor(hi <= a, b <= lo))
                r = t.remove_lost_segment((lo, hi))
                ctx.prop("remove_outside_returns_false", r is False or r == False)  # noqa: E712
            post = _post_ranges(t)
            _check_invariant(ctx, post)
        ctx.note(i, op, post)
        ctx.covered(f"step{i}:{op}")
        ctx.prop("sequence_denotation", _den(post, x) == model(x),
                 lambda: {"sig": f"after operation {i} ({op}) the tracked ranges do not denote added minus removed"})
        ctx.prop("count_matches", t.num_lost_segments == len(post))


# --------------------------------------------------------------------------- plan
from vf.explore import Spec  # noqa: E402

KR = {"quick": 4, "thorough": 7}
BOUNDS = {
    "quick": "at most 4 tracked ranges before the operation; all range bounds, operation arguments and the witness are unbounded integers; plus every sequence of 4 operations (add / remove inside / remove outside / coalesce, unbounded integer arguments under the property's preconditions) on one tracker object starting fresh",
    "thorough": "at most 7 tracked ranges before the operation; all range bounds, operation arguments and the witness are unbounded integers; run with the dict shim and with the builtin dict (all keys symbolic)",
}
OUTSIDE = ("histories in which more than Kr ranges are tracked at once; removals that straddle the START of a "
           "tracked range or cover several ranges (the property does not constrain them)")
FUNCTIONS = ["cfdppy.handler.dest.LostSegmentTracker.add_lost_segment", "…remove_lost_segment",
             "…coalesce_lost_segments", "…reset", "…num_lost_segments"]
EXPLANATION = ("C18 is an inductive one-step argument: arbitrary pre-state satisfying the representation "
               "invariant, one real operation, invariant and denotation at a symbolic witness afterwards; "
               "with the base case (fresh tracker) this covers every operation history in which at most Kr "
               "ranges are tracked.")
ASSUMPTIONS = ["representation invariant of the pre-state: ranges non-empty, ascending, pairwise disjoint (adjacency allowed)",
               "add: new range non-empty and disjoint from all tracked; remove: inside one range / touching none / empty / straddling an end",
               "z3 4.x decides linear integer arithmetic correctly (cross-checked with cvc5 and z3 4.8.12 in the thorough tier)"]


def plan(tier):
    specs = []
    variants = [True] if tier == "quick" else [True, False]
    for shim in variants:
        for k in range(KR[tier] + 1):
            for op in OPS:
                if op in ("add_seq", "reset") and k > 0:
                    continue
                obl = ["straddle_refused"] if (op == "remove_straddle" and k > 0) else []
                specs.append(Spec(f"trk/{op}/k={k}/{'shim' if shim else 'builtin'}-dict",
                                  "vf.harness.c18:harness", {"k": k, "op": op, "shim_dict": shim},
                                  twin_share=1.0, obligations=obl))
        ks = 4 if tier == "quick" else 5
        specs.append(Spec(f"trk/sequence/K={ks}/{'shim' if shim else 'builtin'}-dict", "vf.harness.c18:h_seq",
                          {"K": ks, "shim_dict": shim}, twin_share=0.2,
                          obligations=["step2:add", "step2:remove_inside", "step3:coalesce"]))
    return specs

MANIFEST = {
    "technique": "bounded symbolic execution (z3) of the real LostSegmentTracker methods, one inductive step from an arbitrary valid state",
    "design_ref": "DESIGN.md 7.18",
    "level_text": "For every pre-state of at most Kr tracked ranges with arbitrary integer bounds satisfying the representation invariant and every argument admitted by the property's precondition, the real add/remove/coalesce/reset code is executed symbolically on all feasible paths and z3 shows invariant, denotation at an arbitrary witness offset, return value and refusal behaviour; with the base case this is an induction over operation histories (bounded only in the number of simultaneously tracked ranges). Every counterexample is replayed on the unshimmed code with plain ints before it is reported.",
    "level_note": "Trusted: z3 (cross-checked by cvc5 and z3 4.8.12 on dumped queries in the thorough tier), the symex proxies (every path's model is re-run concretely and must agree), CPython. Bound: Kr = 4 (quick) / 7 (thorough) tracked ranges.",
}
