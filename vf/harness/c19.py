"""C19 -- put requests are admitted, parameterised and identified correctly (H-SRC)."""
from __future__ import annotations

from cfdppy.exceptions import NoRemoteEntityCfgFound, SourceFileDoesNotExist
from spacepackets.cfdp import ChecksumType
from spacepackets.util import UnsignedByteField

from vf import hsrc, rigs, symex
from vf.explore import Spec
from vf.harness import c07
from vf.harness.c11 import flat_eq, src_view
from vf.rigs import ACK, UNACK, Ids, SrcRig, pdu_kind
from vf.symex import sand, smin
from vf.world import World, sym_len

MODES = [None, ACK, UNACK]
TRI = [None, True, False]


def h_admission(ctx):
    w = World(ctx)
    ids = Ids(2, 2)
    req_mode = ctx.pick("req_mode", MODES)
    req_closure = ctx.pick("req_closure", TRI)
    mib_mode = ctx.pick("mib_mode", [ACK, UNACK])
    mib_closure = bool(ctx.choice("mib_closure", 2))
    exists = bool(ctx.choice("file_exists", 2))
    known = bool(ctx.choice("dest_known", 2))
    hdr = 4 + 2 * ids.id_w + ids.seq_w
    P = ctx.int("P", hdr + 16, 4096)
    L = ctx.int("L", 1, 4096)
    S = ctx.int("S", 0, 2**16)
    rig = SrcRig(w, ids, mode=mib_mode, closure=mib_closure, seg_len=L, max_packet_len=P)
    if exists:
        rig.fs.add_source_file("/src/file.bin", S)
    dest = ids.dst if known else ids.other_entity
    o = rig.put(mode=req_mode, closure=req_closure, dest_id=dest)
    ctx.note("put", exists, known, rigs.exc_name(o.exc), o.ret)
    if not exists:
        ctx.covered("missing_file")
        ctx.prop("missing_file_raises", isinstance(o.exc, SourceFileDoesNotExist),
                 lambda: {"sig": f"missing source file -> {rigs.exc_name(o.exc)} / {o.ret}"})
    elif not known:
        ctx.covered("unknown_destination")
        ctx.prop("unknown_destination_raises", isinstance(o.exc, NoRemoteEntityCfgFound),
                 lambda: {"sig": f"unknown destination -> {rigs.exc_name(o.exc)} / {o.ret}"})
    if o.exc is not None:
        ctx.prop("refused_request_leaves_handler_idle", rig.idle and not o.pdus,
                 lambda: {"sig": "handler not idle after a refused put request"})
        q = rig.sm()
        ctx.prop("refused_request_leaves_handler_idle", q.exc is None and not q.pdus and rig.idle)
        if not exists:
            rig.fs.add_source_file("/src/file.bin", S)
        o = rig.put(mode=req_mode, closure=req_closure)
        ctx.covered("reused_after_refusal")
    ctx.prop("valid_request_accepted", o.exc is None and o.ret is True,
             lambda: {"sig": f"valid put request -> {rigs.exc_name(o.exc)} / {o.ret}"})
    want_mode = req_mode if req_mode is not None else mib_mode
    want_closure = req_closure if req_closure is not None else mib_closure
    o1 = rig.sm()
    ctx.prop("first_call_emits_metadata", o1.exc is None and o1.kinds() == ["MD"],
             lambda: {"sig": f"{rigs.exc_sig(o1.exc)} {o1.kinds()}"})
    md = o1.pdus[0]
    ctx.prop("mode_from_request_else_mib", md.transmission_mode == want_mode and rig.h.transmission_mode == want_mode,
             lambda: {"sig": f"mode {md.transmission_mode!r}, request {req_mode!r}, mib {mib_mode!r}"})
    ctx.prop("closure_from_request_else_mib", bool(md.closure_requested) == want_closure,
             lambda: {"sig": f"closure {md.closure_requested}, request {req_closure}, mib {mib_closure}"})
    ctx.prop("transaction_id_assigned", rig.h.transaction_id is not None
             and rig.h.transaction_id.seq_num.value == ids.seq.value)
    o2 = rig.sm()
    ctx.prop("second_call_ok", o2.exc is None, lambda: {"sig": rigs.exc_sig(o2.exc)})
    derived = P - hdr - 4
    seg = smin(L, derived)
    fds = [p for p in o2.pdus if pdu_kind(p) == "FD"]
    if fds:
        ctx.covered("file_data_seen")
        n = sym_len(fds[0].file_data)
        ctx.prop("segment_length_is_min_of_configured_and_derived", n == smin(seg, S),
                 lambda: {"sig": "first File Data PDU length is not min(max_file_segment_len, derived, file size)"})
    else:
        ctx.prop("no_file_data_only_for_empty_file", S == 0, lambda: {"sig": str(o2.kinds())})


def h_busy(ctx, M, k_put):
    """a put request to a busy handler returns False and does not disturb the running transaction"""
    w = World(ctx)
    mode = ctx.pick("mode", [ACK, UNACK])
    closure = bool(ctx.choice("closure", 2))
    a = hsrc.SrcScenario(ctx, w, mode=mode, closure=closure, M=M)
    b = hsrc.SrcScenario(ctx, w, mode=mode, closure=closure, M=M, S=a.S)
    # the premature request may name the same remote entity, another one with a different
    # configuration, an unknown one, or a missing file
    other = rigs.remote_cfg(b.ids.other_entity, seg_len=5, max_packet_len=64, closure=not closure, crc=True,
                            mode=UNACK if mode == ACK else ACK, cktype=ChecksumType.CRC_32C)
    b.rig.table.add_config(other)
    variant = ctx.pick("premature", ["same", "other_entity", "unknown_entity", "missing_file"])
    a.put(); b.put()
    for i in range(M + 4):
        if i == k_put:
            o = b.rig.put(src="/src/none.bin" if variant == "missing_file" else "/src/file.bin", dst="/dst/other.bin",
                          dest_id={"other_entity": b.ids.other_entity,
                                   "unknown_entity": UnsignedByteField(77, b.ids.id_w)}.get(variant))
            was_busy = not b.rig.idle
            if not was_busy:
                ctx.end("infeasible")
            ctx.covered("premature_put")
            ctx.prop("busy_handler_returns_false", o.exc is None and o.ret is False and not o.pdus,
                     lambda: {"sig": f"put on busy handler -> {rigs.exc_name(o.exc)} / {o.ret}"})
        oa, ob = a.sm(), b.sm()
        ctx.prop("running_transaction_unaffected", flat_eq(src_view(oa), src_view(ob)),
                 lambda: {"sig": f"stream differs at call {i} after a premature put request"})
        if a.rig.idle and b.rig.idle:
            break
        if i == 0:
            a.remember_conf(); b.remember_conf()
    if mode == ACK:
        oa, ob = a.ack_eof(), b.ack_eof()
        ctx.prop("running_transaction_unaffected", flat_eq(src_view(oa), src_view(ob)))


def h_seq(ctx, shared):
    """consecutive / concurrent transactions of one entity never share a transaction id"""
    w = World(ctx)
    ids = Ids(2, 2)
    start = ctx.pick("seq0", [0, 5, 1000, 65000])
    r1 = SrcRig(w, ids, mode=UNACK, closure=False, seq_start=start)
    r1.fs.add_source_file("/src/file.bin", 0)
    if shared:
        r2 = SrcRig(w, ids, mode=UNACK, closure=False)
        r2.seq = r1.seq
        r2.h.seq_num_provider = r1.seq
        r2.fs.add_source_file("/src/file.bin", 0)
    seen = []
    for rig in ([r1, r2, r1] if shared else [r1, r1, r1]):
        if not rig.idle:
            for _ in range(4):
                if rig.idle:
                    break
                rig.sm()
        o = rig.put()
        ctx.prop("accepted", o.exc is None and o.ret is True)
        o = rig.sm()
        ctx.prop("started", o.exc is None and o.kinds() == ["MD"], lambda: {"sig": rigs.exc_sig(o.exc)})
        seen.append(o.pdus[0].transaction_seq_num.value)
        if shared:
            continue
    for i, v in enumerate(seen):
        ctx.prop("next_value_of_the_provider", v == start + i,
                 lambda: {"sig": f"transaction {i} got sequence number {v}"})
    ctx.prop("ids_distinct", len({int(v) if not symex.is_sym(v) else i for i, v in enumerate(seen)}) == len(seen))


def h_concurrent(ctx, reuse):
    """two handlers of one entity (one sequence-number provider) run transactions that overlap in time -
    fresh, or after each of them completed an earlier transaction: every PDU carries the transaction id,
    destination and mode of its own transaction"""
    w = World(ctx)
    ids = Ids(2, 2)
    L = 4
    rig_s = []
    for i in range(2):
        r = SrcRig(w, ids, mode=UNACK, closure=False, seg_len=L, max_packet_len=64)
        r.fs.add_source_file("/src/file.bin", 2 * L)
        r.table.add_config(rigs.remote_cfg(ids.other_entity, seg_len=L, max_packet_len=64, mode=UNACK, closure=True,
                                           cktype=ChecksumType.CRC_32C))
        rig_s.append(r)
    rig_s[1].seq = rig_s[0].seq
    rig_s[1].h.seq_num_provider = rig_s[0].seq
    if reuse:
        for r in rig_s:  # one complete transaction each, one after the other
            o = r.put()
            for _ in range(8):
                if r.idle and o.call != ("put",):
                    break
                o = r.sm()
                if o.exc is not None:
                    raise o.exc
            if not r.idle:
                raise symex.HarnessError("first transaction did not complete")
        ctx.covered("handlers_reused")
    # overlapping transactions: an acknowledged one to the usual peer, one to another entity with the MIB defaults
    order = ctx.pick("order", ["put1-put2", "put1-sm-put2"])
    want = [dict(dst=ids.dst.value, mode=ACK), dict(dst=ids.other_entity.value, mode=UNACK)]
    out = [[], []]
    o = rig_s[0].put(mode=ACK)
    ctx.prop("accepted", o.exc is None and o.ret is True)
    if order == "put1-sm-put2":
        out[0] += rig_s[0].sm().pdus
    o = rig_s[1].put(dest_id=ids.other_entity)
    ctx.prop("accepted", o.exc is None and o.ret is True)
    tids = [None, None]
    for _ in range(5):
        for i in (0, 1):
            o = rig_s[i].sm()
            ctx.prop("no_exception", o.exc is None, lambda: {"sig": rigs.exc_sig(o.exc)})
            out[i] += o.pdus
            if tids[i] is None and rig_s[i].h.transaction_id is not None:
                tids[i] = rig_s[i].h.transaction_id
    ctx.prop("ids_distinct", tids[0] is not None and tids[1] is not None
             and tids[0].seq_num.value != tids[1].seq_num.value,
             lambda: {"sig": "overlapping transactions share a sequence number"})
    for i in (0, 1):
        ctx.prop("stream_complete", [pdu_kind(p) for p in out[i]] == ["MD", "FD", "FD", "EOF"],
                 lambda: {"sig": f"handler {i}: {[pdu_kind(p) for p in out[i]]}"})
        for p in out[i]:
            ctx.prop("pdu_carries_own_transaction",
                     p.transaction_seq_num.value == tids[i].seq_num.value and p.dest_entity_id.value == want[i]["dst"]
                     and p.transmission_mode == want[i]["mode"] and p.source_entity_id.value == ids.src.value,
                     lambda: {"sig": f"handler {i}: {pdu_kind(p)} with sequence number {p.transaction_seq_num.value}, "
                                     f"destination {p.dest_entity_id.value}, mode {int(p.transmission_mode)}"})


def h_same_request_again(ctx):
    """a PutRequest object that leaves mode and closure to the MIB is submitted twice; in between the operator
    changes the remote entity's defaults: the second transaction follows the new defaults"""
    from cfdppy.request import PutRequest
    from vf.world import MemPath
    w = World(ctx)
    ids = Ids(2, 2)
    modes = [UNACK, ACK]
    m1, c1 = UNACK, bool(ctx.choice("closure1", 2))
    m2, c2 = ctx.pick("mode2", modes), bool(ctx.choice("closure2", 2))
    rig = SrcRig(w, ids, mode=m1, closure=False, seg_len=4, max_packet_len=64)
    rig.fs.add_source_file("/src/file.bin", ctx.int("S", 0, 8))
    req = PutRequest(destination_id=ids.dst, source_file=MemPath("/src/file.bin"), dest_file=MemPath("/dst/file.bin"),
                     trans_mode=None, closure_requested=None)
    o = rig.put_obj(req)
    ctx.prop("accepted", o.exc is None and o.ret is True)
    for _ in range(8):
        if rig.idle and o.call != ("put",):
            break
        o = rig.sm()
        if o.exc is not None:
            raise o.exc
    if not rig.idle:
        raise symex.HarnessError("first transaction did not complete")
    rig.rcfg.default_transmission_mode = m2
    rig.rcfg.closure_requested = c2
    o = rig.put_obj(req)
    ctx.prop("accepted", o.exc is None and o.ret is True)
    o = rig.sm()
    ctx.prop("started", o.exc is None and o.kinds()[:1] == ["MD"], lambda: {"sig": rigs.exc_sig(o.exc)})
    md = o.pdus[0]
    ctx.prop("second_transaction_follows_current_mib",
             md.transmission_mode == m2 and bool(md.closure_requested) == c2,
             lambda: {"sig": f"MIB now says mode {int(m2)} closure {c2}; Metadata PDU has mode "
                             f"{int(md.transmission_mode)} closure {bool(md.closure_requested)}"})
    ctx.covered("resubmitted")


def h_put_before_last_pdus_retrieved(ctx):
    """the handler is idle again in the very call that queued the last PDU of the previous transaction; the user
    hands in the next put request BEFORE retrieving it: nothing is lost, both streams come out in order"""
    w = World(ctx)
    ids = Ids(2, 2)
    L = 8
    rig = SrcRig(w, ids, mode=UNACK, closure=False, seg_len=L, max_packet_len=64)
    S = ctx.int("S", 0, 2 * L)
    rig.fs.add_source_file("/src/file.bin", S)
    o = rig.put()
    ctx.prop("accepted", o.exc is None and o.ret is True)
    first = []
    for _ in range(6):
        o = rig.sm(drain=False)  # state machine call without retrieving what it queued
        ctx.prop("no_exception", o.exc is None, lambda: {"sig": rigs.exc_sig(o.exc)})
        if rig.idle:
            break
        first += rig.drain()
    ctx.prop("first_transaction_over", rig.idle)
    pending = rig.h.num_packets_ready if hasattr(rig.h, "num_packets_ready") else None
    o = rig.put(dst="/dst/second.bin")
    ctx.prop("accepted", o.exc is None and o.ret is True, lambda: {"sig": f"{rigs.exc_name(o.exc)} / {o.ret}"})
    first += o.pdus + rig.drain()  # what get_next_packet() hands out after the put request
    ctx.covered("put_with_pdus_pending")
    k1 = [pdu_kind(p) for p in first]
    ctx.prop("first_stream_complete", k1[:1] == ["MD"] and k1[-1:] == ["EOF"] and k1.count("EOF") == 1,
             lambda: {"sig": f"PDUs of the first transaction after the early put request: {k1}"})
    second = []
    for _ in range(6):
        o = rig.sm()
        ctx.prop("no_exception", o.exc is None, lambda: {"sig": rigs.exc_sig(o.exc)})
        second += o.pdus
        if rig.idle:
            break
    k2 = [pdu_kind(p) for p in second]
    ctx.prop("second_stream_complete", k2[:1] == ["MD"] and k2[-1:] == ["EOF"] and rig.idle,
             lambda: {"sig": f"PDUs of the second transaction: {k2}"})
    if first and second:
        ctx.prop("ids_distinct", first[0].transaction_seq_num.value != second[0].transaction_seq_num.value)


def h_refused_then_other(ctx):
    """a refused put request (unknown destination) of one kind, then a valid request of ANOTHER kind on the same
    handler: nothing of the refused request may linger (handler idle AND reusable)"""
    from spacepackets.cfdp import MessageToUserTlv
    w = World(ctx)
    ids = Ids(2, 2)
    L = 8
    rig = SrcRig(w, ids, mode=UNACK, closure=False, seg_len=L, max_packet_len=64)
    sa = ctx.int("SA", 0, 2 * L)
    sb = ctx.int("SB", 0, 2 * L)
    rig.fs.add_source_file("/src/a.bin", sa)
    rig.fs.add_source_file("/src/file.bin", sb)
    k1 = ctx.pick("refused_kind", ["file", "metadata_only"])
    k2 = ctx.pick("valid_kind", ["file", "metadata_only"])
    msgs = [MessageToUserTlv(b"hello")]
    if k1 == "file":
        o = rig.put(src="/src/a.bin", dst="/dst/a.bin", dest_id=ids.other_entity)
    else:
        o = rig.put(src=None, dst=None, msgs=msgs, dest_id=ids.other_entity)
    ctx.prop("unknown_destination_raises", isinstance(o.exc, NoRemoteEntityCfgFound),
             lambda: {"sig": f"unknown destination -> {rigs.exc_name(o.exc)} / {o.ret}"})
    ctx.prop("refused_request_leaves_handler_idle", rig.idle and not o.pdus)
    o = rig.put() if k2 == "file" else rig.put(src=None, dst=None, msgs=msgs)
    ctx.prop("valid_request_accepted", o.exc is None and o.ret is True,
             lambda: {"sig": f"valid put request -> {rigs.exc_name(o.exc)} / {o.ret}"})
    pdus = []
    for _ in range(6):
        o = rig.sm()
        ctx.prop("no_exception", o.exc is None, lambda: {"sig": rigs.exc_sig(o.exc)})
        pdus += o.pdus
        if rig.idle:
            break
    kinds = [pdu_kind(p) for p in pdus]
    ctx.covered(f"{k1}->{k2}")
    if k2 == "metadata_only":
        ctx.prop("follow_up_as_requested", kinds == ["MD"], lambda: {"sig": f"metadata-only request after a refused {k1} request: {kinds}"})
        return
    total = 0
    for p in pdus:
        if pdu_kind(p) == "FD":
            total = total + sym_len(p.file_data)
    eofs = [p for p in pdus if pdu_kind(p) == "EOF"]
    ctx.prop("follow_up_as_requested",
             sand(kinds[:1] == ["MD"], len(eofs) == 1, pdus[0].file_size == sb, total == sb,
                  eofs[0].file_size == sb if eofs else False),
             lambda: {"sig": f"file request after a refused {k1} request: stream {kinds} does not carry the requested file"})


def plan(tier):
    q = tier == "quick"
    specs = [Spec("admission-and-parameters", "vf.harness.c19:h_admission", {}, twin_share=0.1,
                  obligations=["missing_file", "unknown_destination", "reused_after_refusal", "file_data_seen"])]
    m = 2 if q else 3
    for k in range(0, m + 3):
        specs.append(Spec(f"busy/put-before-call-{k}/M={m}", "vf.harness.c19:h_busy", {"M": m, "k_put": k},
                          twin_share=0.2))
    specs.append(Spec("sequence-numbers/one-handler", "vf.harness.c19:h_seq", {"shared": False}, twin_share=1.0))
    specs.append(Spec("sequence-numbers/two-handlers-one-provider", "vf.harness.c19:h_seq", {"shared": True},
                      twin_share=1.0))
    specs.append(Spec("put-request-before-the-last-pdus-are-retrieved", "vf.harness.c19:h_put_before_last_pdus_retrieved", {},
                      twin_share=1.0, obligations=["put_with_pdus_pending"]))
    specs.append(Spec("refused-request-then-another-kind", "vf.harness.c19:h_refused_then_other", {}, twin_share=0.5,
                      obligations=["metadata_only->file", "file->file", "file->metadata_only"]))
    specs.append(Spec("same-request-object-twice", "vf.harness.c19:h_same_request_again", {}, twin_share=1.0,
                      obligations=["resubmitted"]))
    for reuse in (False, True):
        specs.append(Spec(f"overlapping-transactions/two-handlers/{'reused' if reuse else 'fresh'}",
                          "vf.harness.c19:h_concurrent", {"reuse": reuse}, twin_share=1.0,
                          obligations=["handlers_reused"] if reuse else []))
    return specs


BOUNDS = {
    "quick": "complete truth table request mode {None, ACK, UNACK} x request closure {None, T, F} x MIB mode x MIB closure x source file exists x destination known, with file size, max_file_segment_len and max_packet_len symbolic; premature put request before each of the first M+3 calls of a running transaction (M=2 segments, both modes, closure on/off), compared with the undisturbed run; three transactions on one handler and on two handlers sharing a provider with start values 0/5/1000/65000; two handlers with one provider running overlapping transactions (to two remote entities, modes differ), fresh and after an earlier complete transaction each; one PutRequest object (mode/closure None) submitted twice with the MIB defaults changed in between",
    "thorough": "M=3",
}
OUTSIDE = "sequence number wrap-around; put requests with TLV options; id widths other than (2,2) (C07)"
FUNCTIONS = ["SourceHandler.put_request", "_setup_transmission_params", "_transaction_start", "_prepare_file_params", "_calculate_max_file_seg_len", "_get_next_transfer_seq_num",
             "RemoteEntityCfgTable.get_cfg"]
EXPLANATION = "Truth table forked by the solver; numeric parameters symbolic; the busy case is a differential run inside one path."
ASSUMPTIONS = ["in-memory filestore", "sequence number provider = spacepackets SeqCountProvider (16 bit) below its wrap-around"]
MANIFEST = {
    "technique": "bounded symbolic execution (z3) of the real put_request/state_machine over the complete admission truth table with symbolic sizes; differential run for the busy case",
    "design_ref": "DESIGN.md 7.19",
    "level_text": "All combinations of request-level and MIB-level mode/closure, missing file and unknown destination are executed with symbolic file size, segment length and packet length: documented error, idle and reusable handler afterwards, resolved mode/closure in header and Metadata, first File Data length = min(configured, derived, file size), sequence numbers consecutive from several start values on one handler and across two handlers sharing the provider; a put request to a busy handler returns False and the PDU stream of the running transaction equals the undisturbed one call by call.",
    "level_note": "Trusted: z3, symex proxies/stubs (10-100% of paths re-run concretely).",
}
