"""H-SRC: one real SourceHandler after put_request, fed an arbitrary sequence of events."""
from __future__ import annotations

import inspect

import cfdppy.exceptions as cexc
from spacepackets.cfdp import ChecksumType, ConditionCode, Direction, TransactionId
from spacepackets.cfdp.pdu import DirectiveType
from spacepackets.cfdp.pdu.finished import DeliveryCode, FileStatus

from . import rigs, symex
from .rigs import ACK, UNACK, Ids, SrcRig

SRC_DOCUMENTED = tuple(n for n, c in inspect.getmembers(cexc, inspect.isclass)
                       if issubclass(c, Exception) and c.__module__ == cexc.__name__)


class SrcScenario:
    def __init__(self, ctx, w, *, mode, closure, M=2, P=30, L=None, cktype=ChecksumType.CRC_32,
                 ids=None, S=None, rig_kwargs=None, crc=False):
        self.ctx, self.w = ctx, w
        self.ids = ids or Ids(2, 2)
        self.mode, self.closure = mode, closure
        hdr = 4 + 2 * self.ids.id_w + self.ids.seq_w
        self.seg = P - hdr - 4 - (2 if crc else 0) if L is None else symex.smin(L, P - hdr - 4 - (2 if crc else 0))
        if S is None:
            self.S = ctx.int("S", 0, 2**20)
            ctx.assume(self.S <= M * self.seg)
        else:
            self.S = S
        self.M = M
        self.rig = SrcRig(w, self.ids, mode=mode, closure=closure, seg_len=L, max_packet_len=P,
                          cktype=cktype, crc=crc, **(rig_kwargs or {}))
        self.rig.fs.add_source_file("/src/file.bin", self.S)
        self.n = 0
        self.vp = ""
        self.events = []
        self.cktype = cktype

    def put(self, **kw):
        o = self.rig.put(**kw)
        return self._done(o, ("PUT",))

    @property
    def conf(self):
        return self.rig.h.pdu_conf

    def running_conf(self):
        """PDU configuration of the running transaction as a peer would use it"""
        c = self._conf0
        return c

    def remember_conf(self):
        import copy

        self._conf0 = copy.copy(self.rig.h.pdu_conf)
        self.tid = self.rig.h.transaction_id

    def _done(self, o, ev):
        self.events.append(ev)
        self.ctx.note(ev, rigs.exc_name(o.exc), o.kinds(), o.step1.name, o.ret)
        o.call = ev
        return o

    def _deliver(self, pdu, ev, direction=Direction.TOWARDS_SENDER):
        rigs.set_direction(pdu, direction)
        o = self.rig.sm(self.w.wire(pdu))
        return self._done(o, ev)

    def sm(self):
        return self._done(self.rig.sm(None), ("SM",))

    def tick(self, name):
        dt = self.ctx.int(name, 0, 3)
        self.w.tick(dt)
        return self._done(self.rig.sm(None), ("TICK", dt))

    def nak(self, reqs, scope_end=None):
        p = rigs.nak(self._conf0, 0, self.S if scope_end is None else scope_end, reqs)
        return self._deliver(p, ("NAK", reqs))

    def ack_eof(self, cond=ConditionCode.NO_ERROR, status=None):
        if status is None:
            return self._deliver(rigs.ack(self._conf0, DirectiveType.EOF_PDU, cond), ("ACKEOF",))
        return self._deliver(rigs.ack(self._conf0, DirectiveType.EOF_PDU, cond, status), ("ACKEOF", int(status)))

    def fin(self, cond=ConditionCode.NO_ERROR, delivery=DeliveryCode.DATA_COMPLETE,
            status=FileStatus.FILE_RETAINED):
        return self._deliver(rigs.finished(self._conf0, cond, delivery, status),
                             ("FIN", int(cond), int(delivery), int(status)))

    def keep_alive(self):
        return self._deliver(rigs.keep_alive(self._conf0, 0), ("KA",))

    def cancel(self, tid=None):
        t = self.tid if tid is None else tid
        if t is None:
            t = TransactionId(self.ids.src, self.ids.seq)
        o = self.rig.cancel(t)
        return self._done(o, ("CANCEL", "own" if tid is None else "other"))

    def replay_on(self, ev):
        k = ev[0]
        if k == "SM":
            return self.sm()
        if k == "TICK":
            return self._done(self.rig.sm(None), ("TICK", ev[1]))
        if k == "NAK":
            return self.nak(ev[1])
        if k == "ACKEOF":
            return self.ack_eof()
        if k == "FIN":
            from spacepackets.cfdp import ConditionCode as _CC
            from spacepackets.cfdp.pdu.finished import DeliveryCode as _DC, FileStatus as _FS
            return self.fin(_CC(ev[1]), _DC(ev[2]), _FS(ev[3]))
        if k == "KA":
            return self.keep_alive()
        if k == "CANCEL":
            return self.cancel()
        raise symex.HarnessError(f"cannot replay {ev}")

    def step(self, alphabet):
        i = f"{self.vp}{self.n}"
        self.n += 1
        ctx = self.ctx
        kind = ctx.pick(f"e{i}", list(alphabet))
        c = self._conf0
        if kind == "SM":
            return self.sm()
        if kind == "TICK":
            return self.tick(f"dt{i}")
        if kind == "NAK":
            a = ctx.int(f"a{i}", 0, 2**20)
            b = ctx.int(f"b{i}", 0, 2**20)
            ctx.assume(b - a <= self.M * self.seg)
            return self.nak([(a, b)])
        if kind == "ACKEOF":
            return self.ack_eof()
        if kind == "FIN":
            cond = ctx.pick(f"fc{i}", [ConditionCode.NO_ERROR, ConditionCode.FILE_CHECKSUM_FAILURE])
            if cond == ConditionCode.NO_ERROR:
                return self.fin()
            return self.fin(cond, DeliveryCode.DATA_INCOMPLETE, FileStatus.FILE_RETAINED)
        if kind == "KA":
            return self.keep_alive()
        if kind == "CANCEL":
            return self.cancel()
        if kind == "CANCEL_OTHER":
            return self.cancel(TransactionId(self.ids.src, self.ids.other_seq))
        if kind == "PUT":
            return self.put()
        if kind == "WRONGSEQ":
            cc = rigs.pdu_conf(self.ids, self.mode, seq=self.ids.other_seq)
            return self._deliver(rigs.finished(cc), ("WRONGSEQ",))
        if kind == "WRONGSEQLOW":
            # a PDU of an EARLIER transaction (lower sequence number), e.g. a late repeated Finished PDU
            from spacepackets.util import UnsignedByteField
            low = UnsignedByteField(c.transaction_seq_num.value - 1, c.transaction_seq_num.byte_len)
            cc = rigs.pdu_conf(self.ids, self.mode, seq=low)
            return self._deliver(rigs.finished(cc), ("WRONGSEQLOW",))
        if kind == "WRONGSRC":
            cc = rigs.pdu_conf(self.ids, self.mode, src=self.ids.other_entity, seq=c.transaction_seq_num)
            return self._deliver(rigs.finished(cc), ("WRONGSRC",))
        if kind == "WRONGDST":
            cc = rigs.pdu_conf(self.ids, self.mode, dst=self.ids.other_entity, seq=c.transaction_seq_num)
            return self._deliver(rigs.finished(cc), ("WRONGDST",))
        if kind == "WRONGDIR":
            return self._deliver(rigs.finished(c), ("WRONGDIR",), Direction.TOWARDS_RECEIVER)
        if kind == "FOREIGN_MD":
            return self._deliver(rigs.metadata(c, self.S), ("FOREIGN", "MD"))
        if kind == "FOREIGN_EOF":
            return self._deliver(rigs.eof(c, self.S, self.w.checksum(self.cktype, 0)), ("FOREIGN", "EOF"))
        if kind == "FOREIGN_PROMPT":
            return self._deliver(rigs.prompt(c), ("FOREIGN", "PROMPT"))
        if kind == "FOREIGN_FD":
            return self._deliver(rigs.file_data(c, 0, self.w.payload(0, 0)), ("FOREIGN", "FD"))
        if kind == "FOREIGN_ACKFIN":
            return self._deliver(rigs.ack(c, DirectiveType.FINISHED_PDU), ("FOREIGN", "ACKFIN"))
        raise symex.HarnessError(f"unknown event {kind}")


def end_if_other_property(ctx, o, owner="C10"):
    if o.exc is None:
        return
    name = type(o.exc).__name__
    if name not in SRC_DOCUMENTED or (name == "UnretrievedPdusToBeSent" and o.queue0 == 0):
        ctx.end("other", f"{owner}:{rigs.exc_sig(o.exc)}")
