"""symex -- dynamic symbolic execution of real Python code by proxy objects over z3.

SymInt / SymBool wrap z3 terms.  Every Python branch on a symbolic value is a solver
query (feasibility of both sides under the path condition); paths are explored depth
first by re-execution with a decision prefix.  Subtrees are distributed over a process
pool.  See DESIGN.md section 3.

A *harness* is a function  h(ctx) -> None  that builds symbolic inputs through ctx,
runs real code, and states the property with ctx.prop(clause, cond).  The same
function runs in concrete mode (ctx.mode == "conc") with values taken from a model.
"""
from __future__ import annotations

import os
import sys
import time
import traceback

import z3

import json as _json

PIN = _json.loads(os.environ.get("VF_PIN", "null"))  # debugging aid: pin symbolic inputs to a model
MAX_DECISIONS = int(os.environ.get("VF_MAX_DECISIONS", "6000"))
QUERY_TIMEOUT_MS = int(os.environ.get("VF_QUERY_TIMEOUT_MS", "20000"))


# --------------------------------------------------------------------------- control flow
class PathEnd(BaseException):
    """Raised to end the current path (not an error)."""

    def __init__(self, status, info=None):
        super().__init__(status)
        self.status = status
        self.info = info


class Unsupported(BaseException):
    """An operation the proxies cannot represent faithfully (would concretise silently)."""


class HarnessError(BaseException):
    """The harness/engine itself is broken (replay divergence, model does not fit...)."""


# --------------------------------------------------------------------------- proxies
def _z(v):
    """python/proxy value -> z3 Int term, or None if not integer-like."""
    if isinstance(v, SymInt):
        return v.e
    if isinstance(v, SymBool):
        return z3.If(v.e, z3.IntVal(1), z3.IntVal(0))
    if isinstance(v, bool):
        return z3.IntVal(int(v))
    if isinstance(v, int):
        return z3.IntVal(int(v))
    return None


def _zb(v):
    if isinstance(v, SymBool):
        return v.e
    if isinstance(v, bool):
        return z3.BoolVal(v)
    if isinstance(v, SymInt):
        return v.e != 0
    if isinstance(v, int):
        return z3.BoolVal(v != 0)
    raise TypeError(f"not boolean-like: {v!r}")


class SymBool:
    __slots__ = ("e",)

    def __init__(self, e):
        self.e = e

    def __bool__(self):
        return Ctx.cur.branch(self.e)

    def __and__(self, o):
        return SymBool(z3.And(self.e, _zb(o)))

    __rand__ = __and__

    def __or__(self, o):
        return SymBool(z3.Or(self.e, _zb(o)))

    __ror__ = __or__

    def __invert__(self):
        return SymBool(z3.Not(self.e))

    def __eq__(self, o):
        try:
            return SymBool(self.e == _zb(o))
        except TypeError:
            return False

    def __ne__(self, o):
        try:
            return SymBool(self.e != _zb(o))
        except TypeError:
            return True

    def __hash__(self):
        return 0x5EED

    def __repr__(self):
        return f"SymBool({self.e})"

    def __deepcopy__(self, memo):
        return self

    def __copy__(self):
        return self

    def __index__(self):
        raise Unsupported("SymBool.__index__")


class SymFloat:
    """opaque result of real-number arithmetic on symbolic integers (progress percentages in log lines
    and the like): it can be combined with numbers and formatted; any DECISION on it is unsupported.
    A division by a symbolic zero raises ZeroDivisionError on its own path, as Python does."""

    def _same(self, *a):
        return SymFloat()

    __add__ = __radd__ = __sub__ = __rsub__ = __mul__ = __rmul__ = __neg__ = __pos__ = __abs__ = _same
    __pow__ = __rpow__ = _same

    def __truediv__(self, o):
        _zero_check(o)
        return SymFloat()

    __floordiv__ = __mod__ = __truediv__

    def __rtruediv__(self, o):
        raise Unsupported("division by a symbolic real number")

    def __round__(self, n=None):
        return SymFloat()

    def __format__(self, spec):
        return "<sym-real>"

    def __repr__(self):
        return "<sym-real>"

    __str__ = __repr__

    def __bool__(self):
        raise Unsupported("decision on a symbolic real number")

    def _cmp(self, o):
        raise Unsupported("comparison of a symbolic real number")

    __lt__ = __le__ = __gt__ = __ge__ = __eq__ = __ne__ = _cmp
    __hash__ = None

    def __int__(self):
        raise Unsupported("int() of a symbolic real number")

    __float__ = __index__ = __int__


def _zero_check(divisor):
    """Python raises ZeroDivisionError for a zero divisor: fork on it"""
    if isinstance(divisor, (SymInt, SymBool)):
        if bool(SymBool(_z(divisor) == 0)):
            raise ZeroDivisionError("division by zero")
    elif isinstance(divisor, (int, float)) and divisor == 0:
        raise ZeroDivisionError("division by zero")


class SymInt:
    __slots__ = ("e",)

    def __init__(self, e):
        self.e = e

    # constant hash: lookups in hash containers fall through to __eq__ (solver decided).
    # Sound only while every key of the container is a proxy; see world.SymDict.
    def __hash__(self):
        return 0x5EED

    def _bin(self, o, f, rev=False):
        z = _z(o)
        if z is None:
            return NotImplemented
        return SymInt(f(z, self.e) if rev else f(self.e, z))

    def _cmp(self, o, f):
        z = _z(o)
        if z is None:
            return NotImplemented
        return SymBool(f(self.e, z))

    def __add__(self, o):
        return self._bin(o, lambda a, b: a + b)

    def __radd__(self, o):
        return self._bin(o, lambda a, b: a + b, True)

    def __sub__(self, o):
        return self._bin(o, lambda a, b: a - b)

    def __rsub__(self, o):
        return self._bin(o, lambda a, b: a - b, True)

    def __mul__(self, o):
        if isinstance(o, SymInt):
            raise Unsupported("symbolic * symbolic")
        if isinstance(o, (float, SymFloat)):
            return SymFloat()
        return self._bin(o, lambda a, b: a * b)

    def __rmul__(self, o):
        if isinstance(o, (float, SymFloat)):
            return SymFloat()
        return self._bin(o, lambda a, b: a * b, True)

    def __truediv__(self, o):
        _zero_check(o)
        return SymFloat()

    def __rtruediv__(self, o):
        _zero_check(self)
        return SymFloat()

    def __floordiv__(self, o):
        _zero_check(o)
        if isinstance(o, (SymInt, SymBool)) or not isinstance(o, int) or o <= 0:
            raise Unsupported("floordiv by non-constant or non-positive divisor")
        return SymInt(self.e / z3.IntVal(o))  # z3 Int div == floor for positive divisor

    def __mod__(self, o):
        _zero_check(o)
        if isinstance(o, (SymInt, SymBool)) or not isinstance(o, int) or o <= 0:
            raise Unsupported("mod by non-constant or non-positive divisor")
        return SymInt(self.e % z3.IntVal(o))

    def __neg__(self):
        return SymInt(-self.e)

    def __pos__(self):
        return self

    def __eq__(self, o):
        z = _z(o)
        if z is None:
            return False
        return SymBool(self.e == z)

    def __ne__(self, o):
        z = _z(o)
        if z is None:
            return True
        return SymBool(self.e != z)

    def __lt__(self, o):
        return self._cmp(o, lambda a, b: a < b)

    def __le__(self, o):
        return self._cmp(o, lambda a, b: a <= b)

    def __gt__(self, o):
        return self._cmp(o, lambda a, b: a > b)

    def __ge__(self, o):
        return self._cmp(o, lambda a, b: a >= b)

    def __bool__(self):
        return Ctx.cur.branch(self.e != 0)

    def __repr__(self):
        return f"Sym({self.e})"

    __str__ = __repr__

    def __format__(self, spec):
        return repr(self)

    def __deepcopy__(self, memo):
        return self

    def __copy__(self):
        return self

    def __index__(self):
        raise Unsupported("SymInt.__index__ (silent concretisation)")

    def __int__(self):
        raise Unsupported("int(SymInt) (silent concretisation)")

    def __lshift__(self, o):
        raise Unsupported("shift on SymInt")

    __rshift__ = __and__ = __or__ = __xor__ = __lshift__
    __rlshift__ = __rrshift__ = __rand__ = __ror__ = __rxor__ = __lshift__


def is_sym(v):
    return isinstance(v, (SymInt, SymBool))


def sand(*xs):
    """conjunction that works for python bools and SymBools without forking"""
    if any(isinstance(x, SymBool) for x in xs):
        return SymBool(z3.And([_zb(x) for x in xs]))
    return all(xs)


def sor(*xs):
    if any(isinstance(x, SymBool) for x in xs):
        return SymBool(z3.Or([_zb(x) for x in xs]))
    return any(xs)


def snot(x):
    if isinstance(x, SymBool):
        return SymBool(z3.Not(x.e))
    return not x


def smin(a, b):
    if isinstance(a, SymInt) or isinstance(b, SymInt):
        return SymInt(z3.If(_z(a) < _z(b), _z(a), _z(b)))
    return min(a, b)


def smax(a, b):
    if isinstance(a, SymInt) or isinstance(b, SymInt):
        return SymInt(z3.If(_z(a) > _z(b), _z(a), _z(b)))
    return max(a, b)


def simplies(a, b):
    return sor(snot(a), b)


def site_of(depth=2):
    """cheap fingerprint of the python location that forced a branch"""
    f = sys._getframe(depth)
    # skip frames inside this module
    while f is not None and f.f_code.co_filename == __file__:
        f = f.f_back
    if f is None:
        return ("?", 0)
    return (f.f_code.co_filename, f.f_lineno)


# --------------------------------------------------------------------------- context
class Ctx:
    cur = None

    def __init__(self, mode="sym", prefix=None, model=None, seed=0):
        self.mode = mode
        self.seed = seed
        self.prefix = prefix or []
        self.trace = []  # [taken, alt_feasible, site]
        self.vars = {}  # name -> z3 const (sym) / value (conc)
        self.model_in = model or {}
        self.queries = 0
        self.prop_queries = 0  # queries that discharged a property clause (unsat of negation)
        self.solver_s = 0.0
        self.cover = set()
        self.notes = []  # free-form per-path record (events) for samples/replay
        self.fresh_n = 0
        self.failure = None  # (clause, info)
        self.prop_checked = 0
        self.inconclusive = None
        self.smt_dump = None  # list to collect property queries as smt2 (thorough)
        self.model_hooks = []  # callables(eval) -> extra entries of the extracted model
        if mode == "sym":
            self.solver = z3.Solver()
            self.solver.set("timeout", QUERY_TIMEOUT_MS)
            self._model = None

    # -- solver plumbing
    def _check(self, *extra):
        t = time.perf_counter()
        self.queries += 1
        r = self.solver.check(*extra)
        self.solver_s += time.perf_counter() - t
        if r == z3.unknown:
            self.inconclusive = f"solver unknown: {self.solver.reason_unknown()}"
            raise PathEnd("inconclusive", self.inconclusive)
        return r

    def _cur_model(self):
        if self._model is None:
            if self._check() != z3.sat:
                raise PathEnd("infeasible")
            self._model = self.solver.model()
        return self._model

    def fresh(self, base):
        self.fresh_n += 1
        return f"{base}!{self.fresh_n}"

    # -- inputs
    def int(self, name, lo=None, hi=None):
        if self.mode == "conc":
            if name not in self.model_in:
                raise HarnessError(f"concrete replay: no value for {name}")
            v = int(self.model_in[name])
            if (lo is not None and v < lo) or (hi is not None and v > hi):
                raise HarnessError(f"concrete replay: {name}={v} outside [{lo},{hi}]")
            self.vars[name] = v
            return v
        if name in self.vars:
            raise HarnessError(f"duplicate symbolic variable {name}")
        c = z3.Int(name)
        self.vars[name] = c
        if PIN and name in PIN:
            self.solver.add(c == int(PIN[name]))
        if lo is not None:
            self.solver.add(c >= lo)
        if hi is not None:
            self.solver.add(c <= hi)
        if lo is not None and hi is not None and lo > hi:
            raise PathEnd("infeasible")
        # adding a fresh bounded variable cannot make the pc infeasible unless lo>hi
        self._model = None
        return SymInt(c)

    def bool(self, name):
        if self.mode == "conc":
            if name not in self.model_in:
                raise HarnessError(f"concrete replay: no value for {name}")
            v = bool(self.model_in[name])
            self.vars[name] = v
            return v
        if name in self.vars:
            raise HarnessError(f"duplicate symbolic variable {name}")
        c = z3.Bool(name)
        self.vars[name] = c
        if PIN and name in PIN:
            self.solver.add(c == bool(PIN[name]))
        return SymBool(c)

    def choice(self, name, n):
        """symbolic choice among n alternatives, forked into a concrete int (explicit
        concretisation over a stated finite domain)"""
        v = self.int(name, 0, n - 1)
        if self.mode == "conc":
            return v
        for k in range(n - 1):
            if v == k:
                return k
        return n - 1

    def pick(self, name, options):
        return options[self.choice(name, len(options))]

    def concretize(self, v, lo, hi):
        """fork a symbolic int over its feasible values in [lo, hi]"""
        if not isinstance(v, SymInt):
            return v
        for k in range(lo, hi):
            if v == k:
                return k
        if v == hi:
            return hi
        raise PathEnd("infeasible")

    # -- constraints
    def assume(self, *conds):
        for c in conds:
            if isinstance(c, SymBool):
                c = c.e
            if isinstance(c, bool):
                if not c:
                    if self.mode == "conc":
                        raise HarnessError("concrete replay violates an assumption")
                    raise PathEnd("infeasible")
                continue
            if self.mode == "conc":
                raise HarnessError("symbolic term in concrete mode")
            self.solver.add(c)
            if self._model is not None:
                if not z3.is_true(self._model.eval(c, model_completion=True)):
                    self._model = None
        if self.mode == "sym" and self._model is None:
            if self._check() != z3.sat:
                raise PathEnd("infeasible")
            self._model = self.solver.model()

    def branch(self, cond, is_prop=False):
        cond = z3.simplify(cond)
        if z3.is_true(cond):
            return True
        if z3.is_false(cond):
            return False
        i = len(self.trace)
        if i >= MAX_DECISIONS:
            raise PathEnd("truncated", f"more than {MAX_DECISIONS} decisions")
        site = site_of()
        if i < len(self.prefix):
            taken, alt, psite = self.prefix[i]
            if psite is not None and tuple(psite) != site:
                raise HarnessError(
                    f"replay divergence at decision {i}: recorded {psite}, now {site}"
                )
            self.trace.append([taken, alt, site])
            self.solver.add(cond if taken else z3.Not(cond))
            self._model = None
            return taken
        m = self._cur_model()
        v = z3.is_true(m.eval(cond, model_completion=True))
        other = z3.Not(cond) if v else cond
        r = self._check(other)
        if r == z3.sat:
            self.trace.append([v, True, site])
        else:
            self.trace.append([v, False, site])
            if is_prop and v:
                self.prop_queries += 1
                if self.smt_dump is not None:
                    self._dump_query(other)
        self.solver.add(cond if v else z3.Not(cond))
        return v

    def _dump_query(self, negated):
        s = z3.Solver()
        s.add(self.solver.assertions())
        s.add(negated)
        self.smt_dump.append(s.to_smt2())

    # -- property
    def prop(self, clause, cond, info=None):
        """state a property clause; a feasible negation is a failing path"""
        self.prop_checked += 1
        if isinstance(cond, SymBool):
            if self.mode == "conc":
                raise HarnessError("symbolic term in concrete mode")
            ok = self.branch(cond.e, is_prop=True)
        else:
            ok = bool(cond)
        if not ok:
            self.failure = (clause, info() if callable(info) else info)
            raise PathEnd("fail", self.failure)

    def covered(self, tag):
        self.cover.add(tag)

    def note(self, *x):
        self.notes.append(x)

    def end(self, status, info=None):
        raise PathEnd(status, info)

    # -- models
    def extract_model(self, caps=(16, 256, 65536, None)):
        """model of the current path condition, preferring small values"""
        ints = [c for c in self.vars.values() if z3.is_int(c)]
        for cap in caps:
            if cap is None:
                r = self._check()
            else:
                self.solver.push()
                for c in ints:
                    self.solver.add(c <= cap, c >= -cap)
                try:
                    r = self.solver.check()
                    self.queries += 1
                    if r == z3.sat:
                        m = self.solver.model()
                        out = self._model_to_dict(m)
                        return out
                finally:
                    self.solver.pop()
                continue
            if r == z3.sat:
                return self._model_to_dict(self.solver.model())
        raise HarnessError("no model for a path that was feasible")

    def _model_to_dict(self, m):
        out = {}
        for name, c in self.vars.items():
            v = m.eval(c, model_completion=True)
            if z3.is_int(c):
                out[name] = v.as_long()
            else:
                out[name] = bool(z3.is_true(v))
        self._last_z3_model = m
        for hook in self.model_hooks:
            out.update(hook(lambda t: m.eval(t, model_completion=True)))
        return out

    def eval_in_last_model(self, term):
        return self._last_z3_model.eval(term, model_completion=True)


def val(ctx_model, v):
    """evaluate proxy under the last extracted model (for reporting)"""
    return v


REPO_MARK = os.sep + "cfdppy" + os.sep


def exc_site(e):
    """innermost function of the library under test on the traceback of e"""
    tb = e.__traceback__
    site = None
    while tb is not None:
        fn = tb.tb_frame.f_code.co_filename
        if REPO_MARK in fn:
            site = tb.tb_frame.f_code.co_name
        tb = tb.tb_next
    return site


def exc_info(e):
    site = exc_site(e)
    return {"sig": f"{type(e).__name__}@{site}", "exception": type(e).__name__,
            "message": str(e)[:200], "raised_in": site}


# --------------------------------------------------------------------------- one path
class PathResult:
    __slots__ = (
        "status", "info", "trace", "queries", "prop_queries", "solver_s", "cover",
        "model", "notes", "prop_checked", "decisions", "tb", "smt",
    )

    def __init__(self):
        self.status = None
        self.info = None
        self.trace = None
        self.queries = 0
        self.prop_queries = 0
        self.solver_s = 0.0
        self.cover = set()
        self.model = None
        self.notes = None
        self.prop_checked = 0
        self.decisions = 0
        self.tb = None
        self.smt = None


_reset_hooks = []


def add_reset_hook(fn):
    if fn not in _reset_hooks:
        _reset_hooks.append(fn)


def run_path(harness, params, prefix, want_model=False, dump_smt=False, seed=0):
    for h in _reset_hooks:
        h()
    ctx = Ctx("sym", prefix=prefix, seed=seed)
    if dump_smt:
        ctx.smt_dump = []
    Ctx.cur = ctx
    res = PathResult()
    try:
        harness(ctx, **params)
        res.status = "pass"
    except PathEnd as e:
        res.status = e.status
        res.info = e.info
    except Unsupported as e:
        res.status = "unsupported"
        res.info = str(e)
        res.tb = traceback.format_exc(limit=8)
    except HarnessError:
        raise
    except RecursionError as e:
        res.status = "inconclusive"
        res.info = f"RecursionError: {e}"
    except Exception as e:  # noqa: BLE001 - the code under test raised something unanticipated
        res.status = "fail"
        res.info = ("unexpected_exception", exc_info(e))
        ctx.failure = res.info
    finally:
        Ctx.cur = None
    if len(ctx.trace) < len(prefix) and res.status not in ("infeasible",):
        # a replayed prefix must be consumed completely unless the path died of an assumption
        if res.status in ("pass", "fail"):
            raise HarnessError(
                f"replay divergence: prefix of {len(prefix)} decisions, path used {len(ctx.trace)}"
            )
    res.trace = ctx.trace
    res.queries = ctx.queries
    res.prop_queries = ctx.prop_queries
    res.solver_s = ctx.solver_s
    res.cover = ctx.cover
    res.prop_checked = ctx.prop_checked
    res.decisions = len(ctx.trace)
    res.smt = ctx.smt_dump
    if res.status in ("fail",) or (want_model and res.status in ("pass", "other")):
        try:
            res.model = ctx.extract_model()
        except PathEnd:
            res.model = None
    res.notes = ctx.notes
    return res


def run_concrete(harness, params, model, seed=0):
    """run the harness with plain python values from a model; returns (status, info, notes)"""
    for h in _reset_hooks:
        h()
    ctx = Ctx("conc", model=model, seed=seed)
    Ctx.cur = ctx
    try:
        harness(ctx, **params)
        return "pass", None, ctx.notes, ctx.cover
    except PathEnd as e:
        return e.status, e.info, ctx.notes, ctx.cover
    except (HarnessError, Unsupported):
        raise
    except RecursionError:
        raise
    except Exception as e:  # noqa: BLE001
        return "fail", ("unexpected_exception", exc_info(e)), ctx.notes, ctx.cover
    finally:
        Ctx.cur = None


def next_prefix(trace, floor):
    """DFS backtracking: flip the deepest decision (index >= floor) whose alternative is
    feasible and untried; None when the subtree is exhausted."""
    tr = [list(t) for t in trace]
    while len(tr) > floor and not (tr[-1][1] is True):
        tr.pop()
    if len(tr) <= floor:
        return None
    last = tr[-1]
    return tr[:-1] + [[not last[0], False, last[2]]]


def pending_prefixes(trace, floor):
    """all untried alternatives of a trace at depth >= floor, shallowest first"""
    out = []
    for i in range(floor, len(trace)):
        if trace[i][1] is True:
            out.append([list(t) for t in trace[:i]] + [[not trace[i][0], False, trace[i][2]]])
    return out
